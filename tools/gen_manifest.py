#!/usr/bin/env python3
"""Regenerates /verif/MANIFEST.json from the table below (kept next to the engine's registry)."""
import json, os
ROOT = os.path.dirname(os.path.dirname(os.path.abspath(__file__)))
ENV = "GOFLAGS=-mod=mod GOPROXY=off GOSUMDB=off GOTOOLCHAIN=local"
TECH = "bounded symbolic execution of the go/ssa of the working tree (own SSA->SMT-LIB2 encoder), obligations discharged by z3 5.1.0 with cvc5 1.0 / z3 4.8.12 as portfolio and cross-check; counterexamples and cover witnesses replayed on a real neo-go chain (neotest)"
NOTE_COMMON = ("Trusted: go/packages+go/ssa (x/tools 0.29.0), the NeoVM-semantics rules and environment stubs of DESIGN.md 2.2/2.3 "
               "(validated on every run by replaying cover witnesses on the real VM), z3/cvc5, neo-go v0.107.0 for replays, the harness oracles. "
               "Not modelled: GAS metering, integer/size limits, witness scopes, several transactions per block. ")
# property -> (claim text, bound note, design section)
CHECKS = {
}
NA = {
}
def main():
    checks = []
    for pid in sorted(CHECKS):
        text, bound, ref = CHECKS[pid]
        checks.append({
            "property_id": pid,
            "quick_cmd": f"/verif/bin/neosym check {pid} --tier quick",
            "thorough_cmd": f"/verif/bin/neosym check {pid} --tier thorough",
            "evidence_file": f"/verif/evidence/{pid}.json",
            "replay_cmd_template": "/verif/bin/neosym replay {path}",
            "engine": "neosym",
            "level_claimed": {"category": "model_checking", "text": text, "design_ref": ref},
            "level_note": NOTE_COMMON + "Bound: " + bound,
            "technique": TECH,
        })
    props = [json.loads(l)["id"] for l in open(os.path.join(ROOT, "properties.jsonl"))]
    na = [{"property_id": p, "reason": NA.get(p, "check not built yet (work in progress in this round)")} for p in props if p not in CHECKS]
    m = {
        "version": 1,
        "setup_cmd": f"cd /verif/engine && {ENV} go build -o /verif/bin/neosym . && /verif/bin/neosym selfcheck",
        "hooks": {"guard": "verif", "enable": "none needed: harnesses are overlaid in-package through go/packages Overlay; /repo is never edited by a check",
                  "baseline_off_cmd": "cd /repo && go test -vet=off -count=1 -timeout 25m ./...", "source_commits": SOURCE_COMMITS, "add_only": True},
        "engines": [{"name": "neosym", "path": "/verif/engine", "serves_properties": sorted(CHECKS),
                     "kind_free_text": "symbolic executor for go/ssa with NeoVM semantics, SMT back end (z3/cvc5), neotest replay back end"}],
        "checks": checks,
        "not_applicable": na,
        "notes": "See DESIGN.md. Known findings: /verif/KNOWN_FINDINGS.json.",
    }
    json.dump(m, open(os.path.join(ROOT, "MANIFEST.json"), "w"), indent=1)
    print("checks:", len(checks), "not_applicable:", len(na))
SOURCE_COMMITS = []
exec(open(os.path.join(ROOT, "tools", "manifest_table.py")).read())
main()
