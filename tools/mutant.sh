#!/bin/bash
# usage: mutant.sh <prop> <file-relative-to-repo> <sed-expression> [more check args]
# copies /repo to a scratch dir, applies the sed expression to the file, runs the check against the copy, removes it.
set -e
prop=$1; file=$2; expr=$3; shift 3
d=$(mktemp -d /tmp/neosym-mut-XXXXXX)
rsync -a --exclude .git /repo/ $d/
before=$(md5sum $d/$file | cut -d' ' -f1)
sed -i "$expr" $d/$file
after=$(md5sum $d/$file | cut -d' ' -f1)
if [ "$before" = "$after" ]; then echo "mutation did not change $file"; rm -rf $d; exit 3; fi
(cd $d && diff -u /repo/$file $file | head -20) || true
NEOSYM_REPO=$d /verif/bin/neosym check $prop "$@" 2>&1 | grep -v "^    tx\|^  harness\|FAILS on the real" | cut -c1-300
rm -rf $d
