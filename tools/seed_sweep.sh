#!/bin/bash
# usage: seed_sweep.sh [names...]   — re-runs every stored seeded change (or the named ones) against the
# machinery as it stands now: a scratch copy of /repo outside /repo and /verif gets the stored patch.diff,
# `neosym check <property> --tier quick` runs against the copy (NEOSYM_REPO), the copy is restored for the
# next one and removed at the end. /repo itself is never touched. Evidence files are overwritten by these
# runs: run the quick tiers on the unchanged tree afterwards.
export GOFLAGS=-mod=mod GOPROXY=off GOSUMDB=off GOTOOLCHAIN=local
d=$(mktemp -d /tmp/neosym-sweep-XXXXXX)
trap 'rm -rf $d' EXIT
names="$@"; [ -z "$names" ] && names=$(ls /verif/seeded)
for n in $names; do
  sd=/verif/seeded/$n
  [ -s $sd/patch.diff ] || { echo "$n | no patch.diff"; continue; }
  prop=$(python3 -c "import json;print(json.load(open('$sd/meta.json'))['property'])")
  rsync -a --delete --exclude .git /repo/ $d/
  if ! (cd $d && git apply $sd/patch.diff 2>/dev/null); then echo "$n | $prop | patch does not apply to the current tree"; continue; fi
  s=$(date +%s)
  NEOSYM_REPO=$d /verif/bin/neosym check $prop --tier quick > /tmp/sweep_$n.log 2>&1; e=$?
  ids=$(grep '^VIOLATION' /tmp/sweep_$n.log | sed 's/.*_-\([^ ]*\)\.json/\1/; s/.*-\(C[0-9][0-9]_[^ ]*\)\.json/\1/' | sort -u | head -4 | tr '\n' ' ')
  echo "$n | $prop | exit=$e viol=$(grep -c '^VIOLATION' /tmp/sweep_$n.log) inconcl=$(grep -c '^INCONCLUSIVE' /tmp/sweep_$n.log) $(( $(date +%s)-s ))s | $ids"
done
