#!/bin/bash
# usage: seed_keep.sh <Cxx> <dirname> "<what it needs to manifest>" "<first result>" "<final result>"
id=$1; name=$2; needs=$3; first=$4; final=$5
sd=/tmp/seed${SEED_ROUND:-}-$id; out=/verif/seeded/$name
mkdir -p $out
cp $sd/patch.confirmed.diff $out/patch.diff
cp $sd/demo_test.go $out/demo_test.go.txt
cp $sd/NOTES.md $out/NOTES.md
grep "^VIOLATION\|quick:\|thorough:" $sd/check.log | head -6 > $out/check_output.txt
python3 - "$id" "$needs" "$first" "$final" "$out" <<'PY'
import json,sys
id,needs,first,final,out=sys.argv[1:6]
meta={"property":id,"produced_by":"independent sub-agent (property text + own worktree only)",
 "needs_to_manifest":needs,
 "confirmed":{"full_suite_with_change":"passes (go test -vet=off -count=1 -skip TestSeed ./...)","demo_with_change":"fails","demo_without_change":"passes"},
 "ran":"tools/seed_eval.sh %s (applies patch.diff to /repo, runs `neosym check %s --tier quick`, restores /repo)"%(id,id),
 "first_result":first,"final_result":final}
json.dump(meta,open(out+"/meta.json","w"),indent=1)
PY
echo kept $out
