#!/bin/bash
# usage: job.sh <Harness> <tier> [params...]   — one harness run, obligations printed one per line (not the summary)
out=$(mktemp); err=$(mktemp)
timeout ${JOB_TIMEOUT:-600} /verif/bin/neosym job "$@" > $out 2> $err; echo "exit $?"
python3 - $out $err <<'PY'
import json,sys
raw=open(sys.argv[1]).read()
i=raw.find('JOBRESULT ')
if i<0:
    print('no JOBRESULT'); print(raw[-800:]); print(open(sys.argv[2]).read()[-1500:]); raise SystemExit
d=json.loads(raw[i+10:].split('\n')[0])
print({k:v for k,v in d.items() if not isinstance(v,(list,dict))})
for o in d.get('obligations') or []:
    extra=''
    if o.get('verdict') not in ('unsat',) and o.get('kind')=='assert': extra=' <<<<'
    print('  %-9s %-8s q=%-3s %s%s %s'%(o.get('kind'),o.get('verdict'),o.get('path_queries'),o.get('id'),extra,(o.get('replay') or o.get('note') or '')[:160]))
for k in ('inconclusive','notes','errors'):
    for i in d.get(k) or []: print('  %s: %s'%(k.upper(),str(i)[:400]))
PY
rm -f $out $err
