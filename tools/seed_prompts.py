#!/usr/bin/env python3
"""usage: seed_prompts.py <round> <angle-file> [Cxx ...]
Writes /tmp/seed<round>-Cxx/{PROMPT.txt,PROPERTY.txt} for the named properties (default: all claimed) and adds a
detached worktree /tmp/wt<round>-Cxx of /repo for each. The sub-agent gets the property text and its worktree,
nothing from /verif. <angle-file> holds the round's extra instruction ({id} is substituted)."""
import json,os,subprocess,sys
T='''You are helping test a verification effort by producing a realistic, subtle defect ("seeded change") in a Go repository.

Repository: a git worktree of nspcc-dev/neofs-contract (NeoFS smart contracts written in the neo-go Go dialect under contracts/, shared helpers in common/, a Go deployment orchestrator in deploy/, tests in tests/ using neo-go's neotest) at /tmp/wt{r}-{id}. Work ONLY inside /tmp/wt{r}-{id} and /tmp/seed{r}-{id}. Do NOT read or touch /verif or /repo. Do NOT use `git stash` (the stash is shared with sibling worktrees). There is no network. For every shell call use: export GOFLAGS=-mod=mod GOPROXY=off GOSUMDB=off GOTOOLCHAIN=local

The property (also in /tmp/seed{r}-{id}/PROPERTY.txt):

{id} — {title}
Statement: {statement}
Quantifier: {quant}

{angle}

Your task: make a small change to the NON-TEST source code of the repository (any file under contracts/ or common/{deployfiles}; for {id} the property is anchored in: {files}) that BREAKS this property, while
 (a) the repository still compiles and the whole existing test suite still passes: `cd /tmp/wt{r}-{id} && go test -vet=off -count=1 ./...` (takes ~15 s). Note: tests compile the contracts from the .go sources with the neo-go compiler, which supports only a subset of Go (no goroutines, limited stdlib; look at the surrounding code for what is allowed);
 (b) the breakage needs something SPECIFIC to manifest — a particular unusual input or boundary value, a multi-step sequence of operations, a particular configuration (e.g. a committee of 7 where 2n/3+1 and n/2+1 differ), or two cooperating sites that each look fine alone — NOT something ordinary use would expose at once;
 (c) it looks like a plausible mistake a developer could make (off-by-one, wrong comparison, forgotten update in one branch, wrong variable or prefix, stale copy-paste), not sabotage.

Then write a demonstration: a Go test file (put it under /tmp/wt{r}-{id}/{testdir}/ as zz_seed{r}_{lid}_test.go in the package of that directory; look at the existing *_test.go files and helpers there for how things are set up) whose test function names start with TestSeed, that FAILS with your change and PASSES on the original code. Verify both yourself WITHOUT `git stash`: save the source change with `git -C /tmp/wt{r}-{id} diff > /tmp/seed{r}-{id}/patch.diff`, run the demo test with the change (must fail), remove the change with `git -C /tmp/wt{r}-{id} checkout -- .` (the untracked demo stays), run the demo again (must pass), then restore the change with `git -C /tmp/wt{r}-{id} apply /tmp/seed{r}-{id}/patch.diff`.

Deliver into /tmp/seed{r}-{id}/:
 - patch.diff : output of `git -C /tmp/wt{r}-{id} diff` (the source change only; the demo test is untracked so it is not included)
 - demo_test.go : a copy of your demonstration test
 - NOTES.md : 5-10 lines: what the change is, why it breaks the property, what exactly is needed for it to manifest, the commands you ran and their outcomes (full suite passes with the change; demo fails with the change, passes without).
Do not change or delete existing tests. Keep the change minimal. Finish by printing the contents of NOTES.md.'''
r=sys.argv[1]; angle=open(sys.argv[2]).read().strip(); sel=sys.argv[3:]
for l in open('/verif/properties.jsonl'):
    p=json.loads(l); id=p['id']
    if id=='C15' or (sel and id not in sel): continue
    testdir='deploy' if id=='C13' else 'tests'
    files=', '.join(f for f in p['anchors']['files'] if 'nef' not in f and 'manifest' not in f)
    prompt=T.format(r=r,id=id,lid=id.lower(),title=p['title'],statement=p['statement'],quant=p['quantifier']['text'],files=files,
        testdir=testdir,angle=angle.replace('{id}',id).replace('{r}',r),deployfiles=(' or deploy/' if id=='C13' else ''))
    if id=='C13':
        prompt+='\nFor C13 restrict yourself to the pure helper functions in deploy/ (divideFundsEvenly in deploy/funds.go, neoFSRuntimeTransactionModifier in deploy/deploy.go, the sharedTransactionData codec in deploy/notary.go and other side-effect-free helpers); the demo is an ordinary Go unit test in package deploy.'
    d='/tmp/seed%s-%s'%(r,id); os.makedirs(d,exist_ok=True)
    open(d+'/PROMPT.txt','w').write(prompt)
    open(d+'/PROPERTY.txt','w').write('%s — %s\nStatement: %s\nQuantifier: %s\n'%(id,p['title'],p['statement'],p['quantifier']['text']))
    wt='/tmp/wt%s-%s'%(r,id)
    if not os.path.isdir(wt): subprocess.run(['git','-C','/repo','worktree','add','-q','--detach',wt,'HEAD'],check=True)
    print(id,end=' ')
print()
