# edited by hand; read by gen_manifest.py
SOURCE_COMMITS[:] = []
CHECKS.update({
})
NA.update({
 "C15": "Deciding it means recompiling the contracts and comparing NEF/manifest/binding artifacts byte by byte, or equivalence checking of NeoVM byte code against the Go sources; the first is not solver-based, the second needs a symbolic NeoVM and a relational encoding of 11 contracts, out of reach here (DESIGN.md section 5).",
})
