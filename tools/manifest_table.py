# edited by hand; read by gen_manifest.py
SOURCE_COMMITS[:] = ["edd3339", "4b2c4df", "0730f36", "1e76e16"]
CHECKS.update({
 "C01": ("Bounded symbolic model checking of the real Balance contract (go/ssa of the working tree): from a state built through the public API every method with fully symbolic arguments and signer set; supply = sum, non-negativity, supply moves only by mint/burn, refusals change nothing, notifications reproduce balances are asserted and discharged by SMT for all values inside the bound.",
         "state mint(a0,x0) mint(a1,x1) lock(a0->lk,y,until) with symbolic amounts, then ONE symbolic operation out of transfer/transferX/mint/burn/lock/newEpoch (public transfer with 0/19/20/21-byte addresses; 20-byte symbolic from/to free to alias); longer histories are outside the claim.", "DESIGN.md 4 C01"),
 "C02": ("Same scenarios as C01 with the authorisation assertions: a balance may decrease only with the holder's witness (public transfer from the holder) or the Alphabet's; Alphabet methods fail without the Alphabet witness; a refused transfer returns false and emits nothing.",
         "as C01; 'the account is the calling contract' is exercised only through container->transferX in C05.", "DESIGN.md 4 C02"),
 "C09": ("Bounded symbolic model checking of lock/burn/newEpoch of the real Balance contract (ticks delivered directly and through the real Netmap fan-out) against a reference model of lock expiry written in the harness.",
         "one owner, two locks (amounts symbolic, until in -3..300), optional burn 0..y1 of the first, two ticks with symbolic epochs 1..300.", "DESIGN.md 4 C09"),
 "C06": ("Bounded symbolic model checking of netmap.newEpoch over the real Netmap and Balance contracts plus two probe subscriber contracts: success iff Alphabet witness, growing epoch and no refusing subscriber; failed ticks change nothing; published maps, tick height, candidate set and the subscriber fan-out (once each, in subscription order, double subscription ignored) are asserted.",
         "fixture of 3 legacy + 1 structured candidates and 3 subscribers; two ticks with symbolic epochs in -2..1000, symbolic Alphabet signature, one symbolic epoch refused by a subscriber; one transaction per block.", "DESIGN.md 4 C06"),
 "C07": ("Bounded symbolic model checking of the candidate methods of the real Netmap contract against a reference state machine kept in the harness; method, target, state value and signer set of every step are symbolic.",
         "2 (quick) / 3 (thorough) consecutive symbolic operations over a pool of two node keys; the reference model tracks one of them.", "DESIGN.md 4 C07"),
 "C08": ("Bounded symbolic model checking of the snapshot ring and the per-epoch node lists of the real Netmap contract: the resize count is symbolic, queries snapshot(d)/snapshotByEpoch(e)/listNodes(e) are symbolic, every published map carries its epoch so that exactness is observable.",
         "initial count c0 in {2,3,4,10}, up to 5 ticks before and 2 after ONE resize to a symbolic count 0..6 (the concrete first resize to c0 at epoch 0 is the second one); the quantifier's 30 epochs / counts up to 12 are outside the quick bound.", "DESIGN.md 4 C08"),
})
NA.update({
 "C15": "Deciding it means recompiling the contracts and comparing NEF/manifest/binding artifacts byte by byte, or equivalence checking of NeoVM byte code against the Go sources; the first is not solver-based, the second needs a symbolic NeoVM and a relational encoding of 11 contracts, out of reach here (DESIGN.md section 5).",
})
