# edited by hand; read by gen_manifest.py
SOURCE_COMMITS[:] = ["edd3339", "4b2c4df"]
CHECKS.update({
 "C01": ("Bounded symbolic model checking of the real Balance contract (go/ssa of the working tree): from a state built through the public API every method with fully symbolic arguments and signer set; supply = sum, non-negativity, supply moves only by mint/burn, refusals change nothing, notifications reproduce balances are asserted and discharged by SMT for all values inside the bound.",
         "state mint(a0,x0) mint(a1,x1) lock(a0->lk,y,until) with symbolic amounts, then ONE symbolic operation out of transfer/transferX/mint/burn/lock/newEpoch (public transfer with 0/19/20/21-byte addresses; 20-byte symbolic from/to free to alias); longer histories are outside the claim.", "DESIGN.md 4 C01"),
 "C02": ("Same scenarios as C01 with the authorisation assertions: a balance may decrease only with the holder's witness (public transfer from the holder) or the Alphabet's; Alphabet methods fail without the Alphabet witness; a refused transfer returns false and emits nothing.",
         "as C01; 'the account is the calling contract' is exercised only through container->transferX in C05.", "DESIGN.md 4 C02"),
 "C09": ("Bounded symbolic model checking of lock/burn/newEpoch of the real Balance contract (ticks delivered directly and through the real Netmap fan-out) against a reference model of lock expiry written in the harness.",
         "one owner, two locks (amounts symbolic, until in -3..300), optional burn 0..y1 of the first, two ticks with symbolic epochs 1..300.", "DESIGN.md 4 C09"),
})
NA.update({
 "C15": "Deciding it means recompiling the contracts and comparing NEF/manifest/binding artifacts byte by byte, or equivalence checking of NeoVM byte code against the Go sources; the first is not solver-based, the second needs a symbolic NeoVM and a relational encoding of 11 contracts, out of reach here (DESIGN.md section 5).",
})
