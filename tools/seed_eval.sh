#!/bin/bash
# usage: [SEED_ROUND=2] seed_eval.sh <Cxx> [check args]   — confirms a sub-agent's seeded change and runs the check on it
# Never uses `git stash`: the stash is shared by all worktrees of a repository, and concurrent sub-agents popped
# each other's changes. The worktree is reset and the DELIVERED patch.diff is what gets applied and evaluated.
export GOFLAGS=-mod=mod GOPROXY=off GOSUMDB=off GOTOOLCHAIN=local
id=$1; shift
lid=$(echo $id | tr 'A-Z' 'a-z')
r=${SEED_ROUND:-}   # SEED_ROUND=2 evaluates the second round (/tmp/wt2-Cxx, /tmp/seed2-Cxx)
wt=/tmp/wt$r-$id; sd=/tmp/seed$r-$id
testdir=tests; [ "$id" = C13 ] && testdir=deploy
cd $wt || exit 2
[ -s $sd/patch.diff ] || { echo "no delivered patch.diff"; exit 2; }
echo "== files touched by the delivered patch"; grep '^+++ ' $sd/patch.diff
git checkout -q -- . || exit 2
demo=$(ls $testdir/zz_seed*_test.go 2>/dev/null | head -1)
if [ -z "$demo" ]; then cp $sd/demo_test.go $testdir/zz_seed${r}_${lid}_test.go; demo=$testdir/zz_seed${r}_${lid}_test.go; fi
echo "== demo without the change (must pass)"
go test -vet=off -count=1 -run 'TestSeed' ./$testdir/ > $sd/demo_without.log 2>&1; without=$?
echo "demo-without exit=$without"
git apply $sd/patch.diff || { echo "delivered patch does not apply to a clean worktree"; exit 2; }
cp $sd/patch.diff $sd/patch.confirmed.diff
echo "== demo with the change (must fail)"
go test -vet=off -count=1 -run 'TestSeed' ./$testdir/ > $sd/demo_with.log 2>&1; with=$?
echo "demo-with exit=$with"
echo "== full suite with the change (demo skipped)"
go test -vet=off -count=1 -skip 'TestSeed' ./... 2>&1 | grep -v "no test files" | grep -v "^ok" | head -5; suite=${PIPESTATUS[0]}
echo "suite exit=$suite"
echo "== check on /repo with the change applied"
[ -z "$(git -C /repo status --short)" ] || { echo "/repo is not clean"; exit 2; }
git -C /repo apply $sd/patch.confirmed.diff || { echo "patch does not apply to /repo"; exit 2; }
/verif/bin/neosym check $id "$@" > $sd/check.log 2>&1; chk=$?
git -C /repo checkout -- .
grep -c "^VIOLATION" $sd/check.log | sed 's/^/violations: /'
grep "^VIOLATION" $sd/check.log | head -3 | cut -c1-200
tail -1 $sd/check.log
echo "RESULT id=$id suite=$suite demo_with=$with demo_without=$without check_exit=$chk"
