package main

import (
	"github.com/nspcc-dev/neo-go/pkg/vm/stackitem"
	"github.com/mr-tron/base58"
	"go/types"
	"go/token"
	"runtime"
	"fmt"
	"github.com/nspcc-dev/neo-go/pkg/crypto/hash"
	"math/big"
	"strings"

	"golang.org/x/tools/go/ssa"
)

var feasSites = map[string]int{}

const ipfx = "github.com/nspcc-dev/neo-go/pkg/interop/"

func (e *Engine) feasible(s *State, c *T) (res bool) {
	if c.isC() {
		return c.b
	}
	ck := [2]int{s.pc.id, c.id}
	if r, ok := e.feasCache[ck]; ok {
		return r
	}
	defer func() { e.feasCache[ck] = res }()
	e.stats.feas++
	if progress {
		_, file, line, _ := runtime.Caller(1)
		feasSites[fmt.Sprintf("%s:%d", file[strings.LastIndex(file, "/")+1:], line)]++
	}
	r, _ := e.solver.check(s.pc, []*T{c}, nil)
	return r != "unsat"
}

func keyOf(v Value) []*T {
	switch x := v.(type) {
	case BytesV:
		return x.b
	}
	panic(fmt.Sprintf("storage key of type %T", v))
}

// continueWith resumes the current block after instruction ip once per outcome.
func (e *Engine) continueWith(s *St, in ssa.Value, ip int, outs []Out, mapVal func(o Out) (Value, bool)) ([]succ, []Out) {
	var next []succ
	var fin []Out
	for _, o := range outs {
		v, panics := mapVal(o)
		if panics {
			fin = append(fin, o)
			continue
		}
		st := &St{State: o.State, blk: s.blk, ip: ip + 1, env: s.env}
		if len(outs) > 1 {
			st.env = cloneEnv(s.env)
		}
		st.env[in] = v
		next = append(next, succ{st, nil})
	}
	return next, fin
}

func (e *Engine) call(fn *ssa.Function, s *St, in *ssa.Call, ip int) (next []succ, fin []Out, cont bool) {
	args := make([]Value, len(in.Call.Args))
	for i, a := range in.Call.Args {
		args[i] = e.get(s, a)
	}
	set := func(v Value) ([]succ, []Out, bool) { s.env[in] = v; return nil, nil, true }
	if b, ok := in.Call.Value.(*ssa.Builtin); ok {
		switch b.Name() {
		case "len":
			switch x := args[0].(type) {
			case BytesV:
				return set(IntV{I(int64(len(x.b)))})
			case NullV:
				// neo-go compiles `for range x` to a bare SIZE (faults on Null) but the len builtin to a nil-safe
				// sequence; go/ssa emits the range's len call without a source position
				if in.Pos() == token.NoPos && !inHarnessFile(fn) && e.model == nil && !e.nativeMode {
					return nil, []Out{{s.State, true, constBytes("invalid conversion: Null/ByteString (range over nil)")}}, false
				}
				return set(IntV{I(0)})
			case ListV:
				return set(IntV{I(int64(len(s.heap[x.id].(ArrObj).e)))})
			case MapV:
				return set(IntV{I(int64(len(s.heap[x.id].(MapObj).keys)))})
			}
			panic(fmt.Sprintf("len of %T", args[0]))
		case "append":
			switch x := args[0].(type) {
			case BytesV:
				y, isB := args[1].(BytesV)
				if _, isNull := args[1].(NullV); isNull && !isB && !inHarnessFile(fn) && !e.nativeMode && e.model == nil {
					// neo-go compiles append(a, b...) on byte slices to CAT, which faults on a Null operand
					return nil, []Out{{s.State, true, constBytes("invalid conversion: Null/ByteString (CAT)")}}, false
				}
				return set(BytesV{append(append([]*T(nil), x.b...), y.b...)})
			case NullV:
				if y, ok := args[1].(ListV); ok { // copy: a fresh array
					return set(ListV{e.alloc(s.State, ArrObj{append([]Value(nil), s.heap[y.id].(ArrObj).e...)})})
				}
				return set(args[1])
			case ListV: // NeoVM APPEND mutates in place
				y, ok := args[1].(ListV)
				if !ok { // appending a nil slice
					return set(x)
				}
				arr := s.heap[x.id].(ArrObj)
				s.heap[x.id] = ArrObj{append(append([]Value(nil), arr.e...), s.heap[y.id].(ArrObj).e...)}
				return set(x)
			}
			panic(fmt.Sprintf("append to %T", args[0]))
		}
		if b.Name() == "recover" {
			if n := len(e.panicStack); n > 0 && e.panicStack[n-1] != nil && !e.panicStack[n-1].recovered {
				e.panicStack[n-1].recovered = true
				return set(e.panicStack[n-1].val)
			}
			return set(NullV{})
		}
		if b.Name() == "copy" { // dst is rebound (byte buffers are SSA-bound values in the spike)
			dst, src := args[0].(BytesV), args[1].(BytesV)
			nb := append([]*T(nil), dst.b...)
			n := copy(nb, src.b)
			s.env[in.Call.Args[0]] = BytesV{nb}
			return set(IntV{I(int64(n))})
		}
		panic("builtin " + b.Name())
	}
	callee := in.Call.StaticCallee()
	if callee == nil { // function value: closure or plain function
		switch fv := e.get(s, in.Call.Value).(type) {
		case ClosureV:
			outs := e.runFrameBound(fv.fn.(*ssa.Function), args, fv.bind, s.State)
			next, fin = e.continueWith(s, in, ip, outs, func(o Out) (Value, bool) { return o.val, o.panicked })
			return next, fin, false
		case *ssa.Function:
			callee = fv
		default:
			panic("dynamic call " + in.String())
		}
	}
	name := callee.String()
	switch name {
	// ---- standard-library and neo-go utility calls of the deployment helpers (native-Go mode), modelled as
	// environment by their documented contract ----
	case "(encoding/binary.bigEndian).PutUint32": // writes v big-endian into b[0:4]; b is a view: written through
		dst := args[1].(BytesV)
		if len(dst.b) < 4 {
			return nil, []Out{{s.State, true, constBytes("index out of range")}}, false
		}
		v := args[2].(IntV).t
		bs := make([]*T, 4)
		if v.isC() {
			for k := 0; k < 4; k++ {
				bs[k] = IB(new(big.Int).And(new(big.Int).Rsh(v.n, uint(8*(3-k))), big.NewInt(255)))
			}
		} else { // fresh bytes tied to the value by a linear equation (no div/mod reaches the solver)
			e.fresh++
			sum := I(0)
			for k := 0; k < 4; k++ {
				bs[k] = VarByte(fmt.Sprintf("be%d_%d", e.fresh, k))
				sum = Add(Mul(sum, I(256)), bs[k])
			}
			s.State.pc = And(s.pc, Eq(v, sum))
		}
		e.writeThrough(s, in.Call.Args[1], 0, bs)
		return set(UnitV{})
	case "(encoding/binary.bigEndian).Uint32":
		src := args[1].(BytesV)
		if len(src.b) < 4 {
			return nil, []Out{{s.State, true, constBytes("index out of range")}}, false
		}
		sum := I(0)
		for k := 0; k < 4; k++ {
			sum = Add(Mul(sum, I(256)), src.b[k])
		}
		return set(IntV{sum})
	case "(*encoding/base64.Encoding).EncodeToString": // a box: DecodeString gives the bytes back, nothing else is known
		return set(SerV{StructV{[]Value{constBytes("base64"), args[1]}}})
	case "(*encoding/base64.Encoding).DecodeString":
		if box, ok := args[1].(SerV); ok {
			if st, ok := box.v.(StructV); ok && len(st.f) == 2 {
				if tag, _ := isConstBytes(st.f[0].(BytesV)); tag == "base64" {
					return set(TupleV{[]Value{st.f[1], NullV{}}})
				}
			}
		}
		panic("base64 decoding of a string that was not produced by EncodeToString in this run is not modelled")
	case "crypto/sha256.Sum256": // injective uninterpreted function (the same one the contracts' digests use)
		if c, ok := isConstBytes(args[0].(BytesV)); ok {
			return set(e.uf("sha256", args[0].(BytesV).b, 32, hash.Sha256([]byte(c)).BytesBE()))
		}
		return set(e.uf("sha256", args[0].(BytesV).b, 32, nil))
	case "bytes.HasPrefix":
		sb, pb := args[0].(BytesV), args[1].(BytesV)
		if len(pb.b) > len(sb.b) {
			return set(BoolV{tFalse})
		}
		return set(BoolV{bytesEq(sb.b[:len(pb.b)], pb.b)})
	case "(github.com/nspcc-dev/neo-go/pkg/util.Uint160).BytesBE":
		return set(BytesV{append([]*T(nil), args[0].(BytesV).b...)})
	case "github.com/nspcc-dev/neo-go/pkg/util.Uint160DecodeBytesBE":
		bv := args[0].(BytesV)
		if len(bv.b) != 20 {
			return set(TupleV{[]Value{zeroOf(callee.Signature.Results().At(0).Type()), constBytes("expected byte size of 20 (stub error value)")}})
		}
		return set(TupleV{[]Value{BytesV{append([]*T(nil), bv.b...)}, NullV{}}})
	case "fmt.Errorf":
		return set(constBytes("error (stub error value)"))
	case "github.com/nspcc-dev/neo-go/pkg/rpcclient/actor.DefaultCheckerModifier":
		// stub by its documented contract: an error iff the invocation did not end in the HALT state
		p := args[0].(PtrV)
		inv := e.load(s.State, p).(StructV)
		st := callee.Signature.Params().At(0).Type().(*types.Pointer).Elem().Underlying().(*types.Struct)
		for i := 0; i < st.NumFields(); i++ {
			if st.Field(i).Name() == "State" {
				state := inv.f[i].(BytesV)
				eq := bytesEq(state.b, constBytes("HALT").b)
				if !eq.isC() {
					panic("DefaultCheckerModifier stub: symbolic state string")
				}
				if eq.b {
					return set(NullV{})
				}
				return set(constBytes("script failed (stub error value)"))
			}
		}
		panic("DefaultCheckerModifier stub: no State field")
	case ipfx + "storage.GetContext", ipfx + "storage.GetReadOnlyContext", ipfx + "runtime.Log":
		return set(UnitV{})
	case ipfx + "runtime.Notify":
		nm, _ := isConstBytes(args[0].(BytesV))
		var a []Value
		if l, ok := args[1].(ListV); ok {
			a = s.heap[l.id].(ArrObj).e
		}
		cnt := 1
		if s.notifs != nil {
			cnt = s.notifs.cnt + 1
		}
		if e.roDepth > 0 {
			return nil, []Out{{s.State, true, constBytes("missing call flags: AllowNotify")}}, false
		}
		s.State.notifs = &notifNode{prev: s.notifs, n: notif{e.cur, nm, append([]Value(nil), a...)}, cnt: cnt}
		return set(UnitV{})
	case ipfx + "storage.Put":
		if e.roDepth > 0 {
			return nil, []Out{{s.State, true, constBytes("missing call flags: WriteStates")}}, false
		}
		switch args[2].(type) {
		case ListV, StructV, MapV:
			return nil, []Out{{s.State, true, constBytes("invalid conversion to ByteString")}}, false
		}
		if _, isNull := args[2].(NullV); isNull {
			return nil, []Out{{s.State, true, constBytes("invalid conversion: Null/ByteString")}}, false
		}
		e.put(s.State, e.ns(keyOf(args[1])), args[2])
		return set(UnitV{})
	case ipfx + "storage.Delete":
		if e.roDepth > 0 {
			return nil, []Out{{s.State, true, constBytes("missing call flags: WriteStates")}}, false
		}
		e.put(s.State, e.ns(keyOf(args[1])), nil)
		return set(UnitV{})
	case ipfx + "storage.Get":
		outs := e.storageGet(s, e.ns(keyOf(args[1])))
		if len(outs) == 1 {
			s.State.pc = And(s.pc, outs[0].cond)
			return set(outs[0].v)
		}
		e.stats.forks++
		for i, o := range outs {
			st := s
			if i < len(outs)-1 {
				st = &St{State: s.fork(o.cond), blk: s.blk, env: cloneEnv(s.env)}
			} else {
				s.State.pc = And(s.pc, o.cond)
			}
			st.env[in] = o.v
			st.ip = ip + 1
			next = append(next, succ{st, nil})
		}
		return next, nil, false
	case ipfx + "storage.Find":
		var alts []findAlt
		if f := catchFault(func() { alts = e.storageFind(s, e.ns(keyOf(args[1])), int(args[2].(IntV).t.n.Int64())) }); f != "" {
			return nil, []Out{{s.State, true, constBytes(f)}}, false
		}
		if len(alts) > 1 {
			e.stats.forks++
		}
		for i, a := range alts {
			st := s
			if i < len(alts)-1 {
				st = &St{State: s.fork(a.cond), blk: s.blk, env: cloneEnv(s.env)}
			} else {
				s.State.pc = And(s.pc, a.cond)
			}
			st.env[in] = IterV{e.alloc(st.State, IterObj{a.items, -1})}
			st.ip = ip + 1
			next = append(next, succ{st, nil})
		}
		return next, nil, false
	case ipfx + "iterator.Next":
		it := args[0].(IterV)
		o := s.heap[it.id].(IterObj)
		o.pos++
		s.heap[it.id] = o
		return set(BoolV{B(o.pos < len(o.items))})
	case ipfx + "iterator.Value":
		o := s.heap[args[0].(IterV).id].(IterObj)
		return set(o.items[o.pos])
	case ipfx + "convert.ToBytes":
		outs := e.intToBytes(s, args[0].(IntV).t)
		if len(outs) == 1 {
			s.State.pc = And(s.pc, outs[0].cond)
			return set(outs[0].v)
		}
		e.stats.forks++
		for i, o := range outs {
			st := s
			if i < len(outs)-1 {
				st = &St{State: s.fork(o.cond), blk: s.blk, env: cloneEnv(s.env)}
			} else {
				s.State.pc = And(s.pc, o.cond)
			}
			st.env[in] = o.v
			st.ip = ip + 1
			next = append(next, succ{st, nil})
		}
		return next, nil, false
	case ipfx + "convert.ToInteger": // little-endian two's complement, as the VM's CONVERT to Integer
		if b, ok := args[0].(BytesV); ok {
			return set(IntV{bytesToInt(b.b)})
		}
		return set(args[0]) // an Integer stays what it is; Null stays Null (arithmetic on it faults later)
	case ipfx + "runtime.GetEntryScriptHash":
		return set(constBytes(entryScriptHash))
	case ipfx + "math.Abs":
		x := args[0].(IntV).t
		return set(IntV{Ite(Lt(x, I(0)), Sub(I(0), x), x)})
	case ipfx + "math.Sign":
		x := args[0].(IntV).t
		return set(IntV{Ite(Lt(x, I(0)), I(-1), Ite(Lt(I(0), x), I(1), I(0)))})
	case ipfx + "math.Max":
		x, y := args[0].(IntV).t, args[1].(IntV).t
		return set(IntV{Ite(Lt(x, y), y, x)})
	case ipfx + "math.Min":
		x, y := args[0].(IntV).t, args[1].(IntV).t
		return set(IntV{Ite(Lt(x, y), x, y)})
	case ipfx + "math.Within": // a <= x < b
		x, a, b := args[0].(IntV).t, args[1].(IntV).t, args[2].(IntV).t
		return set(BoolV{And(Le(a, x), Lt(x, b))})
	case ipfx + "native/std.Serialize":
		return set(SerV{e.freeze(s.State, args[0])})
	case ipfx + "native/std.Deserialize":
		dv, fault := e.deserialize(s.State, args[0])
		if fault != "" {
			return nil, []Out{{s.State, true, constBytes(fault)}}, false
		}
		return set(dv)
	case ipfx + "neogointernal.Opcode1NoReturn":
		op, _ := isConstBytes(args[0].(BytesV))
		if op != "REVERSEITEMS" {
			panic("opcode " + op)
		}
		b := args[1].(BytesV)
		nb := make([]*T, len(b.b))
		for i := range nb {
			nb[i] = b.b[len(b.b)-1-i]
		}
		if mi, ok := in.Call.Args[1].(*ssa.MakeInterface); ok {
			s.env[mi.X] = BytesV{nb}
			s.env[mi] = BytesV{nb}
		}
		return set(UnitV{})
	case ipfx + "native/std.StringSplitNonEmpty":
		sep, _ := isConstBytes(args[1].(BytesV))
		alts := e.stringSplit(s, args[0].(BytesV).b, sep[0])
		for i, a := range alts {
			var items []Value
			for _, it := range a.items {
				if len(it.(BytesV).b) > 0 {
					items = append(items, it)
				}
			}
			st := s
			if i < len(alts)-1 {
				st = &St{State: s.fork(a.cond), blk: s.blk, env: cloneEnv(s.env)}
			} else {
				s.State.pc = And(s.pc, a.cond)
			}
			st.env[in] = ListV{e.alloc(st.State, ArrObj{items})}
			st.ip = ip + 1
			next = append(next, succ{st, nil})
		}
		return next, nil, false
	case ipfx + "native/std.StringSplit":
		sep, _ := isConstBytes(args[1].(BytesV))
		alts := e.stringSplit(s, args[0].(BytesV).b, sep[0])
		if len(alts) > 1 {
			e.stats.forks++
		}
		for i, a := range alts {
			st := s
			if i < len(alts)-1 {
				st = &St{State: s.fork(a.cond), blk: s.blk, env: cloneEnv(s.env)}
			} else {
				s.State.pc = And(s.pc, a.cond)
			}
			st.env[in] = ListV{e.alloc(st.State, ArrObj{a.items})}
			st.ip = ip + 1
			next = append(next, succ{st, nil})
		}
		return next, nil, false
	case ipfx + "native/std.Atoi10", ipfx + "native/std.Atoi":
		base := 10
		if name == ipfx+"native/std.Atoi" {
			base = int(args[1].(IntV).t.n.Int64())
		}
		valid, val := atoiModel(args[0].(BytesV).b, base)
		var fin []Out
		if !(valid.isC() && valid.b) && e.feasible(s.State, Not(valid)) {
			fin = append(fin, Out{s.fork(Not(valid)), true, constBytes("invalid format")})
		}
		if valid.isC() && !valid.b || !e.feasible(s.State, valid) {
			return nil, fin, false
		}
		s.State.pc = And(s.pc, valid)
		s.env[in] = IntV{val}
		st := &St{State: s.State, blk: s.blk, ip: ip + 1, env: s.env}
		return []succ{{st, nil}}, fin, false
	case ipfx + "native/crypto.VerifyWithECDsa":
		// signature tokens made by vSigBy carry the (symbolic) identity of their signer and the message they
		// were made for; a token verifies under exactly the key of that signer and only for that message
		sig, ok := args[2].(BytesV)
		if !ok || len(sig.b) != 64 {
			return set(BoolV{tFalse})
		}
		who, ok := e.sigWho[sig.b[0].id]
		if !ok {
			if e.model != nil {
				return set(BoolV{B(e.realVerify(args[0], args[1], sig))})
			}
			return set(BoolV{tFalse})
		}
		pubB, isB := args[1].(BytesV)
		if !isB {
			return set(BoolV{tFalse})
		}
		r := tFalse
		for i, tag := range e.sigMembers {
			r = Or(r, And(Eq(who, I(int64(i))), bytesEq(pubB.b, constBytes(string(tagAccount(tag).PublicKey().Bytes())).b)))
		}
		msg, isB := args[0].(BytesV)
		if !isB {
			return set(BoolV{tFalse})
		}
		return set(BoolV{And(r, bytesEq(msg.b, e.sigMsg[sig.b[0].id].b))})
	case ipfx + "native/ledger.CurrentIndex": // neo-go: the latest STORED block; the persisting block (the one carrying the transaction, or the fake next one of a test invocation) is not counted
		return set(IntV{Sub(s.height, I(1))})
	case ipfx + "native/neo.BalanceOf":
		return set(IntV{I(0)}) // the test contracts hold no NEO: no GAS is claimed
	case ipfx + "native/neo.Vote": // the native NEO state is not modelled: an arbitrary outcome
		e.fresh++
		return set(BoolV{Var(fmt.Sprintf("neoVote%d", e.fresh), 'B')})
	case ipfx + "native/neo.Transfer":
		return set(BoolV{tTrue})
	case ipfx + "native/roles.GetDesignatedByRole":
		// neo-go RoleManagement: the latest designation whose activation block is <= index; the index may not
		// exceed the block being processed (current height + 1). The index used to be ignored (the latest keys
		// were returned whatever was asked), which hid a look-up one block too early.
		idx := args[1].(IntV).t
		if tooFar := Lt(s.height, idx); !tooFar.isC() || tooFar.b {
			if tooFar.isC() || e.feasible(s.State, tooFar) {
				if tooFar.isC() || !e.feasible(s.State, Not(tooFar)) {
					return nil, []Out{{s.State, true, constBytes("GetDesignatedByRole: index exceeds the current height + 1")}}, false
				}
				faulted := s.fork(tooFar)
				s.State.pc = And(s.pc, Not(tooFar))
				fin = append(fin, Out{faulted, true, constBytes("GetDesignatedByRole: index exceeds the current height + 1")})
			}
		}
		mk := func(st *State, pubs [][]byte) Value {
			var ks []Value
			for _, k := range pubs {
				ks = append(ks, constBytes(string(k)))
			}
			return ListV{e.alloc(st, ArrObj{ks})}
		}
		// newest first; each undecided activation forks the path
		for h := len(e.irHistory) - 1; h >= 0; h-- {
			d := e.irHistory[h]
			inForce := Le(d.act, idx)
			if inForce.isC() {
				if inForce.b {
					s.env[in] = mk(s.State, d.pubs)
					st := &St{State: s.State, blk: s.blk, ip: ip + 1, env: s.env}
					return append(next, succ{st, nil}), fin, false
				}
				continue
			}
			if e.feasible(s.State, inForce) {
				if !e.feasible(s.State, Not(inForce)) {
					s.env[in] = mk(s.State, d.pubs)
					st := &St{State: s.State, blk: s.blk, ip: ip + 1, env: s.env}
					return append(next, succ{st, nil}), fin, false
				}
				fs := s.fork(inForce)
				env := cloneEnv(s.env)
				env[in] = mk(fs, d.pubs)
				next = append(next, succ{&St{State: fs, blk: s.blk, ip: ip + 1, env: env}, nil})
				s.State.pc = And(s.pc, Not(inForce))
			}
		}
		s.env[in] = mk(s.State, nil) // nothing designated yet
		return append(next, succ{&St{State: s.State, blk: s.blk, ip: ip + 1, env: s.env}, nil}), fin, false
	case ipfx + "contract.CreateStandardAccount":
		k, ok := isConstBytes(args[0].(BytesV))
		if !ok {
			return set(e.uf("stdacct", args[0].(BytesV).b, 20, nil))
		}
		return set(e.uf("stdacct", args[0].(BytesV).b, 20, e.world.keyHash([]byte(k))))
	case ipfx + "native/gas.BalanceOf":
		h, _ := isConstBytes(args[0].(BytesV))
		return set(IntV{gasOf(s.State, h)})
	case ipfx + "native/gas.Transfer":
		n2, f2 := e.gasTransfer(s, in, ip, args[0], args[1], args[2], args[3], true, func(ok bool) Value { return BoolV{B(ok)} })
		return n2, f2, false
	case ipfx + "runtime.GetScriptContainer":
		e.fresh++
		txh := e.namedBytes(fmt.Sprintf("txhash%d", e.fresh), 32)
		hiddenTags[fmt.Sprintf("txhash%d", e.fresh)] = true
		tx := StructV{[]Value{txh, IntV{I(0)}, IntV{I(0)}, constBytes(string(e.world.payer.ScriptHash().BytesBE())), IntV{I(0)}, IntV{I(0)}, IntV{I(0)}, BytesV{nil}}}
		return set(PtrV{id: e.alloc(s.State, CellObj{tx})})
	case ipfx + "runtime.GetNetwork":
		return set(IntV{I(42)}) // netmode.UnitTestNet, the magic of the replay chain
	case ipfx + "runtime.GetTime":
		return set(IntV{e.txTime})
	case ipfx + "runtime.BurnGas": // metering is not modelled, but neo-go faults on a non-positive amount ("GAS must be positive")
		g, isInt := args[0].(IntV)
		if !isInt {
			return nil, []Out{{s.State, true, constBytes("BurnGas: not an integer")}}, false
		}
		z := Le(g.t, I(0))
		if z.isC() {
			if z.b {
				return nil, []Out{{s.State, true, constBytes("GAS must be positive")}}, false
			}
			return set(UnitV{})
		}
		if !e.feasible(s.State, z) {
			return set(UnitV{})
		}
		if !e.feasible(s.State, Not(z)) {
			return nil, []Out{{s.State, true, constBytes("GAS must be positive")}}, false
		}
		faulted := s.fork(z)
		s.State.pc = And(s.pc, Not(z))
		s.env[in] = UnitV{}
		st := &St{State: s.State, blk: s.blk, ip: ip + 1, env: s.env}
		return []succ{{st, nil}}, []Out{{faulted, true, constBytes("GAS must be positive")}}, false
	case ipfx + "native/management.GetContractByID":
		// the replay world deploys NNS first, so contract 1 is the linked NNS (common.InferNNSHash); other ids
		// are not modelled. Only the Hash field carries information.
		if id, ok := args[0].(IntV); ok && id.t.isC() && id.t.n.Int64() == 1 {
			for _, n := range e.names {
				if n == "nns" {
					return set(PtrV{id: e.alloc(s.State, CellObj{StructV{[]Value{IntV{I(1)}, IntV{I(0)}, constBytes(string(e.world.hashOf("nns"))), NullV{}, NullV{}}}})})
				}
			}
			return set(NullV{})
		}
		panic("unmodelled interop " + name + " for an id other than 1")
	case ipfx + "native/management.GetContract":
		return set(NullV{}) // no test account is a contract
	case ipfx + "native/crypto.Ripemd160", ipfx + "native/crypto.Sha256":
		in0, ok := isConstBytes(args[0].(BytesV))
		ripemd := strings.HasSuffix(name, "Ripemd160")
		if !ok { // injective uninterpreted function (collision resistance assumed)
			if ripemd {
				return set(e.uf("ripemd160", args[0].(BytesV).b, 20, nil))
			}
			return set(e.uf("sha256", args[0].(BytesV).b, 32, nil))
		}
		if ripemd {
			d := hash.RipeMD160([]byte(in0)).BytesBE()
			return set(e.uf("ripemd160", args[0].(BytesV).b, 20, d))
		}
		d := hash.Sha256([]byte(in0)).BytesBE()
		return set(e.uf("sha256", args[0].(BytesV).b, 32, d))
	case ipfx + "native/std.MemoryCompare": // bytes.Compare: -1, 0, 1 (neo-go native/std.go memoryCompare)
		ab, bb := args[0].(BytesV), args[1].(BytesV)
		return set(IntV{Ite(bytesEq(ab.b, bb.b), I(0), Ite(lexLess(ab.b, bb.b), I(-1), I(1)))})
	case ipfx + "native/std.MemorySearch", ipfx + "native/std.MemorySearchLastIndex":
		ab, bb := args[0].(BytesV), args[1].(BytesV)
		a, ok1 := isConstBytes(ab)
		b, ok2 := isConstBytes(bb)
		lastIdx := strings.HasSuffix(name, "LastIndex")
		if ok1 && ok2 {
			if lastIdx {
				start := int(args[2].(IntV).t.n.Int64())
				return set(IntV{I(int64(strings.LastIndex(a[:start], b)))})
			}
			return set(IntV{I(int64(strings.Index(a, b)))})
		}
		// symbolic contents, concrete lengths: an ite chain over the candidate positions
		hay := ab.b
		if lastIdx {
			st := args[2].(IntV).t
			if !st.isC() {
				panic("MemorySearchLastIndex with a symbolic start")
			}
			hay = hay[:st.n.Int64()]
		}
		res := I(-1)
		n := len(bb.b)
		if lastIdx { // the last match wins: build from the first position upwards
			for pos := 0; pos+n <= len(hay); pos++ {
				res = Ite(bytesEq(hay[pos:pos+n], bb.b), I(int64(pos)), res)
			}
		} else {
			for pos := len(hay) - n; pos >= 0; pos-- {
				res = Ite(bytesEq(hay[pos:pos+n], bb.b), I(int64(pos)), res)
			}
		}
		return set(IntV{res})
	case ipfx + "native/std.Base58Encode":
		in0 := args[0].(BytesV)
		if cs, ok := isConstBytes(in0); ok {
			return set(e.uf("base58", in0.b, 0, []byte(base58.Encode([]byte(cs)))))
		}
		// symbolic input: an injective uninterpreted function of fixed length (44 characters for 32-byte digests)
		return set(e.uf("base58", in0.b, len(in0.b)*11/8, nil))
	case ipfx + "native/std.Itoa", ipfx + "native/std.Itoa10":
		alts := e.itoa(s, args[0].(IntV).t)
		for i, a := range alts {
			st := s
			if i < len(alts)-1 {
				st = &St{State: s.fork(a.cond), blk: s.blk, env: cloneEnv(s.env)}
			} else {
				s.State.pc = And(s.pc, a.cond)
			}
			st.env[in] = a.v
			st.ip = ip + 1
			next = append(next, succ{st, nil})
		}
		return next, nil, false
	case ipfx + "util.Equals":
		a, aok := args[0].(BytesV)
		b, bok := args[1].(BytesV)
		if !aok || !bok {
			_, an := args[0].(NullV)
			_, bn := args[1].(NullV)
			return set(BoolV{B(an && bn)})
		}
		return set(BoolV{bytesEq(a.b, b.b)})
	case ipfx + "util.Abort":
		return nil, []Out{{s.State, true, constBytes("ABORT")}}, false
	case ipfx + "util.Remove":
		l := args[0].(ListV)
		idx := int(args[1].(IntV).t.n.Int64())
		arr := s.heap[l.id].(ArrObj)
		s.heap[l.id] = ArrObj{append(append([]Value(nil), arr.e[:idx]...), arr.e[idx+1:]...)}
		return set(UnitV{})
	case ipfx + "runtime.CheckWitness":
		x := keyOf(args[0])
		if len(x) == 33 { // public key: witness of its standard account
			ks, ok := isConstBytes(BytesV{x})
			if ok {
				x = constBytes(string(e.world.keyHash([]byte(ks)))).b
			} else {
				for _, sg := range e.knownKeys() { // relate the symbolic key to the keys of the test accounts
					e.uf("stdacct", constBytes(string(sg)).b, 20, e.world.keyHash(sg))
				}
				x = e.uf("stdacct", x, 20, nil).b
			}
		}
		r := tFalse
		for _, sg := range e.signers {
			r = Or(r, And(sg.present, bytesEq(sg.hash, x)))
		}
		if c := e.callers[len(e.callers)-1]; c >= 0 { // the calling contract witnesses its own hash
			r = Or(r, bytesEq(constBytes(string(e.world.hashOf(e.names[c]))).b, x))
		}
		return set(BoolV{r})
	case ipfx + "runtime.GetExecutingScriptHash":
		return set(constBytes(string(e.world.hashOf(e.names[e.cur]))))
	case ipfx + "native/management.HasMethod":
		hb, ok := args[0].(BytesV)
		if !ok {
			return set(BoolV{tFalse})
		}
		h, okc := isConstBytes(hb)
		m, okm := isConstBytes(args[1].(BytesV))
		if !okc || !okm || !args[2].(IntV).t.isC() {
			panic("management.HasMethod on symbolic arguments")
		}
		for _, n := range e.names {
			if string(e.world.hashOf(n)) == h {
				return set(BoolV{B(e.resolveMethod(n, m, int(args[2].(IntV).t.n.Int64())) != nil)})
			}
		}
		return set(BoolV{tFalse}) // not a deployed contract
	case "github.com/nspcc-dev/neofs-contract/common.ResolveFSContract":
		nm, _ := isConstBytes(args[0].(BytesV))
		return set(constBytes(string(e.world.hashOf(nm))))
	case ipfx + "contract.Call":
		hb, isBytes := args[0].(BytesV)
		if !isBytes || len(hb.b) != 20 {
			return nil, []Out{{s.State, true, constBytes("invalid contract hash")}}, false
		}
		h, okc := isConstBytes(hb)
		if !okc {
			// a symbolic callee: decide which linked contract it can be (at most one may be feasible)
			var cands []string
			for _, n := range e.names {
				if e.feasible(s.State, bytesEq(hb.b, constBytes(string(e.world.hashOf(n))).b)) {
					cands = append(cands, n)
				}
			}
			other := tTrue
			for _, n := range cands {
				other = And(other, Not(bytesEq(hb.b, constBytes(string(e.world.hashOf(n))).b)))
			}
			if len(cands) == 0 || !e.feasible(s.State, other) {
				if len(cands) == 1 {
					h = string(e.world.hashOf(cands[0]))
					s.State.pc = And(s.pc, bytesEq(hb.b, constBytes(h).b))
				} else if len(cands) == 0 { // no such contract on the chain: the VM faults
					return nil, []Out{{s.State, true, constBytes("called contract not found")}}, false
				} else {
					panic("call to a symbolic contract hash with several candidates")
				}
			} else {
				panic("call to a symbolic contract hash")
			}
		}
		method, _ := isConstBytes(args[1].(BytesV))
		flags := int64(15)
		if ft := args[2].(IntV).t; ft.isC() {
			flags = ft.n.Int64()
		}
		cargs := e.listArgs(s.State, args[3])
		if h == string(e.world.nativeHash("ContractManagement")) && method == "update" {
			// management.update(nef, manifest, data): the new code's _deploy(data, true) runs in the contract's context
			if e.roDepth > 0 {
				return nil, []Out{{s.State, true, constBytes("missing call flags")}}, false
			}
			data := cargs[2]
			if e.updateFromVersion != nil { // the old code appended ITS version: the harness-supplied one
				if l, ok := data.(ListV); ok {
					arr := append([]Value(nil), s.heap[l.id].(ArrObj).e...)
					if len(arr) > 0 {
						arr[len(arr)-1] = IntV{e.updateFromVersion}
					}
					data = ListV{e.alloc(s.State, ArrObj{arr})}
				}
			}
			outs := e.runFrame(e.linked[e.names[e.cur]].Func("_deploy"), []Value{data, BoolV{tTrue}}, s.State)
			next, fin = e.continueWith(s, in, ip, outs, func(o Out) (Value, bool) { return NullV{}, o.panicked })
			return next, fin, false
		}
		idx := -1
		for i, n := range e.names {
			if string(e.world.hashOf(n)) == h {
				idx = i
			}
		}
		if idx < 0 {
			if e.model != nil {
				panic("replay: contract code executed concretely")
			}
			panic(fmt.Sprintf("call of %s on a contract that is not linked into this harness", method))
		}
		target := e.resolveMethod(e.names[idx], method, len(cargs))
		if target == nil {
			return nil, []Out{{s.State, true, constBytes("method not found: " + method)}}, false
		}
		cargs = append([]Value(nil), cargs...)
		for i, p := range target.Params {
			cargs[i] = e.coerceDeep(s.State, cargs[i], p.Type())
		}
		ro := flags&2 == 0 || e.isSafe(e.names[idx], method) // WriteStates missing, or a method declared safe
		e.callers = append(e.callers, e.cur)
		prev := e.cur
		e.cur = idx
		if ro {
			e.roDepth++
		}
		outs := e.runFrame(target, cargs, s.State)
		if ro {
			e.roDepth--
		}
		e.cur = prev
		e.callers = e.callers[:len(e.callers)-1]
		next, fin = e.continueWith(s, in, ip, outs, func(o Out) (Value, bool) {
			v := o.val
			if _, unit := v.(UnitV); unit {
				v = NullV{}
			}
			return v, o.panicked
		})
		return next, fin, false
	case ipfx + "runtime.GetCallingScriptHash":
		if c := e.callers[len(e.callers)-1]; c == -2 {
			return set(constBytes(string(e.world.gasHash())))
		}
		if c := e.callers[len(e.callers)-1]; c >= 0 {
			return set(constBytes(string(e.world.hashOf(e.names[c]))))
		}
		// entry script hash: a constant that no account and no symbolic 20-byte input can equal (a script
		// cannot contain its own hash; see namedBytes)
		return set(constBytes(entryScriptHash))
	case ipfx + "native/neo.GetCommittee":
		var ks []Value
		for _, k := range e.world.pubs {
			ks = append(ks, constBytes(string(k)))
		}
		return set(ListV{e.alloc(s.State, ArrObj{ks})})
	case ipfx + "contract.CreateMultisigAccount":
		m := args[0].(IntV).t
		if !m.isC() {
			panic("multisig threshold is symbolic")
		}
		var pubs [][]byte
		var in0 []*T
		allC := true
		for _, k := range e.listArgs(s.State, args[1]) {
			kb := k.(BytesV)
			in0 = append(in0, kb.b...)
			ks, ok := isConstBytes(kb)
			if !ok {
				allC = false
			}
			pubs = append(pubs, []byte(ks))
		}
		in0 = append(in0, m)
		if allC {
			if h, ok := e.world.multisigHash(int(m.n.Int64()), pubs); ok {
				return set(e.uf("multisig", in0, 20, h))
			}
			return nil, []Out{{s.State, true, constBytes("invalid multisig parameters")}}, false
		}
		return set(e.uf("multisig", in0, 20, nil))
	case "(" + ipfx[:len(ipfx)-1] + ".Hash160).Equals", "(" + ipfx[:len(ipfx)-1] + ".Hash256).Equals", "(" + ipfx[:len(ipfx)-1] + ".PublicKey).Equals", "(" + ipfx[:len(ipfx)-1] + ".Signature).Equals":
		a, aok := args[0].(BytesV)
		b, bok := args[1].(BytesV)
		if !aok || !bok {
			return set(BoolV{B(!aok && !bok)})
		}
		return set(BoolV{bytesEq(a.b, b.b)})
	}
	if strings.HasPrefix(name, ipfx) && !strings.HasPrefix(shortName(callee), "init") {
		panic("unmodelled interop " + name)
	}
	if strings.HasPrefix(shortName(callee), "v") && callee.Pkg != nil && callee.Blocks != nil && isHarnessFn(callee) {
		return e.vcall(fn, s, in, ip, shortName(callee), args)
	}
	// ordinary call into repo code
	outs := e.runFrame(callee, args, s.State)
	next, fin = e.continueWith(s, in, ip, outs, func(o Out) (Value, bool) { return o.val, o.panicked })
	return next, fin, false
}

// ---------- storage ----------
func (e *Engine) put(s *State, key []*T, v Value) {
	n := 1
	if s.store != nil {
		n = s.store.n + 1
	}
	s.store = &storeNode{prev: s.store, key: key, val: v, n: n}
}

// storageGet walks the log newest-first; undecided key equalities fork the path.
func (e *Engine) storageGet(s *St, k []*T) []coerced {
	var out []coerced
	none := tTrue
	add := func(c *T, v Value) {
		if c.isC() && !c.b {
			return
		}
		// merge with an earlier candidate of the same shape
		for i := range out {
			if m, ok := mergeVal(c, v, out[i].v); ok {
				out[i] = coerced{Or(out[i].cond, c), m}
				return
			}
		}
		out = append(out, coerced{c, v})
	}
	done := false
	for n := s.store; n != nil; n = n.prev {
		eq := And(n.g(), bytesEq(n.key, k))
		if eq.isC() && !eq.b {
			continue
		}
		v := n.val
		if v == nil {
			v = NullV{}
		}
		add(And(none, eq), v)
		if eq.isC() && eq.b {
			done = true
			break
		}
		none = And(none, Not(eq))
	}
	if !done {
		add(none, NullV{})
	}
	if len(out) <= 1 { // one shape covers every case: no query needed
		return out
	}
	var feas []coerced
	for _, o := range out {
		if e.feasible(s.State, o.cond) {
			feas = append(feas, o)
		}
	}
	return feas
}

type findAlt struct {
	cond  *T
	items []Value
}

func lexLess(a, b []*T) *T {
	// a < b lexicographically (a proper prefix is smaller)
	n := len(a)
	if len(b) < n {
		n = len(b)
	}
	r := B(len(a) < len(b))
	for i := n - 1; i >= 0; i-- {
		r = Or(Lt(a[i], b[i]), And(Eq(a[i], b[i]), r))
	}
	return r
}

// storageFind: snapshot of the live entries having the prefix, in key order. Membership (liveness and
// prefix match) and order are decided per path: undecided conditions fork, feasibility-checked.
func (e *Engine) storageFind(s *St, prefix []*T, flags int) []findAlt {
	type ent struct {
		key   []*T
		val   Value
		guard *T
	}
	var log []ent
	for n := s.store; n != nil; n = n.prev {
		if n.key[0] != prefix[0] && n.key[0].isC() && prefix[0].isC() {
			continue // another contract's namespace
		}
		log = append(log, ent{n.key, n.val, n.g()})
	}
	for l, r := 0, len(log)-1; l < r; l, r = l+1, r-1 {
		log[l], log[r] = log[r], log[l]
	}
	type cand struct {
		en   ent
		cond *T
	}
	var cands []cand
	for i, en := range log {
		if len(en.key) < len(prefix) || en.val == nil {
			continue
		}
		c := And(en.guard, bytesEq(en.key[:len(prefix)], prefix))
		for _, later := range log[i+1:] {
			c = And(c, Not(And(later.guard, bytesEq(later.key, en.key)))) // not overwritten / deleted later
		}
		if c.isC() && !c.b {
			continue
		}
		cands = append(cands, cand{en, c})
	}
	// versions of one key written on different (merged) paths form ONE candidate: live where any version is
	// live, with the value of that version
	{
		var grouped []cand
		for _, c := range cands {
			done := false
			for gi := range grouped {
				g := &grouped[gi]
				if bytesEq(g.en.key, c.en.key) == tTrue {
					if m, ok := mergeVal(c.cond, c.en.val, g.en.val); ok {
						g.en.val = m
						g.cond = Or(g.cond, c.cond)
						done = true
						break
					}
				}
			}
			if !done {
				grouped = append(grouped, c)
			}
		}
		cands = grouped
	}
	// enumerate membership subsets
	alts := []findAlt{{tTrue, nil}}
	type part struct {
		cond *T
		mem  []ent
	}
	parts := []part{{tTrue, nil}}
	for _, c := range cands {
		var np []part
		for _, p := range parts {
			for _, in := range []bool{true, false} {
				cc := c.cond
				if !in {
					cc = Not(cc)
				}
				cond := And(p.cond, cc)
				if cond.isC() && !cond.b {
					continue
				}
				if !e.feasible(s.State, cond) {
					continue
				}
				mem := p.mem
				if in {
					mem = append(append([]ent(nil), p.mem...), c.en)
				}
				np = append(np, part{cond, mem})
			}
		}
		parts = np
	}
	alts = nil
	const keysOnly, removePrefix, valuesOnly, deserialize = 1, 2, 4, 8
	for _, p := range parts {
		// order: insertion sort with forking on undecided comparisons (spike: at most 2 members fork)
		orders := []part{{p.cond, nil}}
		for _, m := range p.mem {
			var no []part
			for _, o := range orders {
				// insert m at every position consistent with lexLess
				for pos := 0; pos <= len(o.mem); pos++ {
					cond := o.cond
					for k, x := range o.mem {
						if k < pos {
							cond = And(cond, lexLess(x.key, m.key))
						} else {
							cond = And(cond, lexLess(m.key, x.key))
						}
					}
					if cond.isC() && !cond.b {
						continue
					}
					if !e.feasible(s.State, cond) {
						continue
					}
					mem := append(append(append([]ent(nil), o.mem[:pos]...), m), o.mem[pos:]...)
					no = append(no, part{cond, mem})
				}
			}
			orders = no
		}
		for _, o := range orders {
			if flags&128 != 0 { // Backwards
				for l, r := 0, len(o.mem)-1; l < r; l, r = l+1, r-1 {
					o.mem[l], o.mem[r] = o.mem[r], o.mem[l]
				}
			}
			var items []Value
			for _, en := range o.mem {
				k := en.key[1:] // drop the contract namespace byte
				if flags&removePrefix != 0 {
					k = en.key[len(prefix):]
				}
				val := en.val
				if flags&deserialize != 0 {
					dv, fault := e.deserialize(s.State, val)
					if fault != "" { // neo-go: the iterator's Value() panics on an item it cannot decode
						panic(vmFault{fault})
					}
					val = dv
					// PickField0 / PickField1 (neo-go istorage.FindPick0/1): the deserialized value must be an
					// array or a struct with enough elements, the iterator hands out that element
					if ind := pickIndex(flags); ind >= 0 {
						var elems []Value
						switch x := dv.(type) {
						case StructV:
							elems = x.f
						case FrozenList:
							elems = x.e
						case *FrozenList:
							elems = x.e
						default:
							panic(vmFault{"find: picked field of an item that is not an array"})
						}
						if len(elems) <= ind {
							panic(vmFault{"find: picked field beyond the array"})
						}
						val = elems[ind]
					}
				}
				switch {
				case flags&keysOnly != 0:
					items = append(items, BytesV{k})
				case flags&valuesOnly != 0:
					items = append(items, val)
				default:
					items = append(items, StructV{[]Value{BytesV{k}, val}})
				}
			}
			alts = append(alts, findAlt{o.cond, items})
		}
	}
	return alts
}

func pickIndex(flags int) int {
	switch {
	case flags&16 != 0:
		return 0
	case flags&32 != 0:
		return 1
	}
	return -1
}

// freeze deep-copies a value into an immutable tree (lists become FrozenList); thaw re-allocates it.
type FrozenList struct{ e []Value }

// writeThrough stores bytes at off.. into the byte string bound to the SSA value v and, when v is a slice
// expression over another bound byte string, into that one too (at the slice's offset), and so on: byte slices
// are values in this engine, so a write through a sub-slice view (b[20:]) has to be carried to what it views.
func (e *Engine) writeThrough(s *St, v ssa.Value, off int, bs []*T) {
	cur, ok := s.env[v].(BytesV)
	if ok && off+len(bs) <= len(cur.b) {
		nb := append([]*T(nil), cur.b...)
		copy(nb[off:], bs)
		s.env[v] = BytesV{nb}
	}
	if sl, ok := v.(*ssa.Slice); ok {
		lo := 0
		if sl.Low != nil {
			lo = cInt(e.get(s, sl.Low))
		}
		if _, isBytes := s.env[sl.X].(BytesV); isBytes {
			e.writeThrough(s, sl.X, off+lo, bs)
		}
	}
}

// deserialize models std.Deserialize / the DeserializeValues find option. A value serialized in this run is
// unboxed. Concrete bytes that were never serialized here go through neo-go's real codec (fault when it
// rejects them, as on the VM). Symbolic bytes that are not a serialization box are taken as undecodable: an
// approximation that cannot raise a false alarm, because every counterexample is replayed on the real VM.
func (e *Engine) deserialize(s *State, v Value) (Value, string) {
	switch x := v.(type) {
	case SerV:
		return e.thaw(s, x.v), ""
	case BytesV:
		if c, ok := isConstBytes(x); ok {
			it, err := stackitem.Deserialize([]byte(c))
			if err != nil {
				return nil, "deserialization failed: " + err.Error()
			}
			var out Value
			if msg := guard(func() { out = fromItem(it) }); msg != "" {
				return nil, "deserialization failed: " + msg
			}
			return out, ""
		}
		return nil, "deserialization of bytes that are not a serialized item"
	}
	return nil, "deserialization of a value that is not a byte string"
}

func (e *Engine) freeze(s *State, v Value) Value {
	switch x := v.(type) {
	case ListV:
		arr := s.heap[x.id].(ArrObj)
		out := make([]Value, len(arr.e))
		for i := range arr.e {
			out[i] = e.freeze(s, arr.e[i])
		}
		return FrozenList{out}
	case StructV:
		out := make([]Value, len(x.f))
		for i := range x.f {
			out[i] = e.freeze(s, x.f[i])
		}
		return StructV{out}
	}
	return v
}

func (e *Engine) thaw(s *State, v Value) Value {
	switch x := v.(type) {
	case FrozenList:
		out := make([]Value, len(x.e))
		for i := range x.e {
			out[i] = e.thaw(s, x.e[i])
		}
		return ListV{e.alloc(s, ArrObj{out})}
	case StructV:
		out := make([]Value, len(x.f))
		for i := range x.f {
			out[i] = e.thaw(s, x.f[i])
		}
		return StructV{out}
	}
	return v
}

func (e *Engine) allocLits(s *State, v Value) Value {
	if l, ok := v.(listLit); ok {
		out := make([]Value, len(l.e))
		for i := range l.e {
			out[i] = e.allocLits(s, l.e[i])
		}
		return ListV{e.alloc(s, ArrObj{out})}
	}
	return v
}

type splitAlt struct {
	cond  *T
	items []Value
}

// stringSplit forks on which bytes equal the separator (feasibility-checked under the path condition).
func (e *Engine) stringSplit(s *St, b []*T, sep byte) []splitAlt {
	type part struct {
		cond  *T
		frags [][]*T
	}
	parts := []part{{tTrue, [][]*T{nil}}}
	for _, c := range b {
		var np []part
		isSep := Eq(c, I(int64(sep)))
		for _, p := range parts {
			for _, yes := range []bool{true, false} {
				cc := isSep
				if !yes {
					cc = Not(isSep)
				}
				cond := And(p.cond, cc)
				if cond.isC() && !cond.b {
					continue
				}
				if !cc.isC() && !e.feasible(s.State, cond) {
					continue
				}
				fr := append([][]*T(nil), p.frags...)
				if yes {
					fr = append(fr, nil)
				} else {
					last := append(append([]*T(nil), fr[len(fr)-1]...), c)
					fr[len(fr)-1] = last
				}
				np = append(np, part{cond, fr})
			}
		}
		parts = np
	}
	var out []splitAlt
	for _, p := range parts {
		items := make([]Value, len(p.frags))
		for i, f := range p.frags {
			items[i] = BytesV{f}
		}
		out = append(out, splitAlt{p.cond, items})
	}
	return out
}

func inRange(c *T, lo, hi byte) *T { return And(Le(I(int64(lo)), c), Le(c, I(int64(hi)))) }

// atoiModel follows neo-go's native Std.atoi: base 10 is big.Int.SetString (optional sign, at least one
// digit); base 16 is hex.DecodeString of the (zero-padded) string read as little-endian *signed* integer,
// with nibble sign extension for odd lengths: value = U - 16^L when the leading digit is >= 8.
func atoiModel(b []*T, base int) (valid *T, val *T) {
	if len(b) == 0 {
		return tFalse, I(0)
	}
	if base == 10 {
		digits := func(bs []*T) (*T, *T) {
			ok, v := tTrue, I(0)
			for _, c := range bs {
				ok = And(ok, inRange(c, '0', '9'))
				v = Add(Mul(v, I(10)), Sub(c, I('0')))
			}
			return ok, v
		}
		okA, vA := digits(b)
		valid, val = okA, vA
		if len(b) >= 2 {
			okR, vR := digits(b[1:])
			plus, minus := Eq(b[0], I('+')), Eq(b[0], I('-'))
			valid = Or(okA, And(Or(plus, minus), okR))
			val = Ite(okA, vA, Ite(minus, Sub(I(0), vR), vR))
		}
		return valid, val
	}
	valid, val = tTrue, I(0)
	for _, c := range b {
		dec, low, up := inRange(c, '0', '9'), inRange(c, 'a', 'f'), inRange(c, 'A', 'F')
		valid = And(valid, Or(dec, Or(low, up)))
		h := Ite(dec, Sub(c, I('0')), Ite(low, Sub(c, I('a'-10)), Sub(c, I('A'-10))))
		val = Add(Mul(val, I(16)), h)
	}
	pow := int64(1)
	for range b {
		pow *= 16
	}
	first := b[0]
	lead8 := Or(inRange(first, '8', '9'), Or(inRange(first, 'a', 'f'), inRange(first, 'A', 'F')))
	return valid, Ite(lead8, Sub(val, I(pow)), val)
}

// flatten turns heap lists into listLit trees so that the replay back end can convert them.
func (e *Engine) flatten(s *State, vs []Value) []Value {
	out := make([]Value, len(vs))
	for i, v := range vs {
		if l, ok := v.(ListV); ok {
			out[i] = listLit{e.flatten(s, s.heap[l.id].(ArrObj).e)}
		} else {
			out[i] = v
		}
	}
	return out
}

// itoa: decimal representation; for a symbolic non-negative integer the path forks on the number of
// digits and the digits are fresh variables tied to the value by a linear equation.
func (e *Engine) itoa(s *St, x *T) []coerced {
	if x.isC() {
		return []coerced{{tTrue, constBytes(x.n.String())}}
	}
	var out []coerced
	lo := big.NewInt(0)
	for k := 1; k <= 20; k++ {
		hi := new(big.Int).Exp(big.NewInt(10), big.NewInt(int64(k)), nil)
		cond := And(Le(IB(lo), x), Lt(x, IB(hi)))
		if e.feasible(s.State, cond) {
			e.fresh++
			ds := make([]*T, k)
			val := I(0)
			for i := 0; i < k; i++ {
				ds[i] = VarR(fmt.Sprintf("dig%d_%d", e.fresh, i), big.NewInt('0'), big.NewInt('9'))
				val = Add(Mul(val, I(10)), Sub(ds[i], I('0')))
			}
			out = append(out, coerced{And(cond, Eq(x, val)), BytesV{ds}})
		}
		lo = hi
	}
	return out
}

func gasOf(s *State, h string) *T {
	if v, ok := s.gas[h]; ok {
		return v
	}
	return I(0)
}

type ufEntry struct {
	in  []*T
	out BytesV
}

// uf applies an injective uninterpreted function: same input => same output (functional consistency) and
// different input => different output (collision resistance is assumed); concrete applications register
// their real value so that symbolic ones are related to them.
func (e *Engine) uf(fn string, in []*T, outLen int, real []byte) BytesV {
	if e.ufs == nil {
		e.ufs = map[string][]ufEntry{}
	}
	for _, en := range e.ufs[fn] {
		if len(en.in) == len(in) {
			if eq := bytesEq(en.in, in); eq.isC() && eq.b {
				return en.out
			}
		}
	}
	var out BytesV
	if real != nil {
		out = constBytes(string(real))
	} else {
		e.fresh++
		out = e.namedBytes(fmt.Sprintf("%s%d", fn, e.fresh), outLen)
	}
	for _, en := range e.ufs[fn] {
		var ax *T
		if len(en.in) == len(in) {
			ax = Eq(bytesEq(en.in, in), bytesEq(en.out.b, out.b))
		} else {
			ax = Not(bytesEq(en.out.b, out.b))
		}
		if !ax.isC() {
			e.ranges = append(e.ranges, ax)
			e.solver.assertBase(ax)
		}
	}
	e.ufs[fn] = append(e.ufs[fn], ufEntry{in, out})
	return out
}

// knownKeys: public keys of the accounts that sign in this run (committee member and tagged test keys).
func (e *Engine) knownKeys() [][]byte {
	ks := append([][]byte(nil), e.world.pubs...)
	for _, a := range knownTags {
		ks = append(ks, a.PublicKey().Bytes())
	}
	return ks
}


// gasTransfer: native GAS NEP-17 transfer. Negative amounts and malformed accounts fault; without the
// witness of `from` (the calling contract counts) or without funds it returns false; on success the ledger
// moves, GAS emits Transfer and the receiver contract's onNEP17Payment runs with caller = GAS.
func (e *Engine) gasTransfer(s *St, in ssa.Value, ip int, fromV, toV, amtV, dataV Value, viaContract bool, wrap func(bool) Value) ([]succ, []Out) {
	var fin []Out
	fb, ok1 := fromV.(BytesV)
	tb, ok2 := toV.(BytesV)
	if !ok1 || !ok2 || len(fb.b) != 20 || len(tb.b) != 20 {
		return nil, []Out{{s.State, true, constBytes("invalid account")}}
	}
	from, okf := isConstBytes(fb)
	to, okt := isConstBytes(tb)
	if !okf || !okt {
		panic("GAS transfer between symbolic accounts")
	}
	amt := amtV.(IntV).t
	if neg := Lt(amt, I(0)); !(neg.isC() && !neg.b) && e.feasible(s.State, neg) {
		fin = append(fin, Out{s.fork(neg), true, constBytes("negative amount")})
		s.State.pc = And(s.pc, Not(neg))
		if !e.feasible(s.State, tTrue) {
			return nil, fin
		}
	}
	wit := tFalse
	if viaContract {
		wit = B(from == string(e.world.hashOf(e.names[e.cur])))
	}
	for _, sg := range e.signers {
		wit = Or(wit, And(sg.present, bytesEq(sg.hash, fb.b)))
	}
	okT := And(wit, Le(amt, gasOf(s.State, from)))
	var res []succ
	if e.feasible(s.State, Not(okT)) {
		st := &St{State: s.fork(Not(okT)), blk: s.blk, ip: ip + 1, env: cloneEnv(s.env)}
		st.env[in] = wrap(false)
		res = append(res, succ{st, nil})
	}
	if !e.feasible(s.State, okT) {
		return res, fin
	}
	s.State.pc = And(s.pc, okT)
	s.State.gas[from] = Sub(gasOf(s.State, from), amt)
	s.State.gas[to] = Add(gasOf(s.State, to), amt)
	cnt := 1
	if s.notifs != nil {
		cnt = s.notifs.cnt + 1
	}
	s.State.notifs = &notifNode{prev: s.notifs, n: notif{-3, "Transfer", []Value{fb, tb, IntV{amt}}}, cnt: cnt}
	recv := -1
	for i, n := range e.names {
		if string(e.world.hashOf(n)) == to {
			recv = i
		}
	}
	if recv < 0 {
		s.env[in] = wrap(true)
		res = append(res, succ{&St{State: s.State, blk: s.blk, ip: ip + 1, env: s.env}, nil})
		return res, fin
	}
	target := e.linked[e.names[recv]].Func("OnNEP17Payment")
	if target == nil { // a contract without the call-back cannot receive tokens
		return res, append(fin, Out{s.State, true, constBytes("method not found: onNEP17Payment")})
	}
	prevCur, prevRO := e.cur, e.roDepth
	e.callers = append(e.callers, -2)
	e.cur, e.roDepth = recv, 0
	outs := e.runFrame(target, []Value{fromV, amtV, dataV}, s.State)
	e.cur, e.roDepth = prevCur, prevRO
	e.callers = e.callers[:len(e.callers)-1]
	n2, f2 := e.continueWith(s, in, ip, outs, func(o Out) (Value, bool) { return wrap(true), o.panicked })
	return append(res, n2...), append(fin, f2...)
}
