package main

// Kernel replay: an unexported function of a contract package ("kernel") is run on the real VM by
// compiling a copy of the package with one added exported wrapper (and its _deploy disabled), deploying it
// and invoking the wrapper.

import (
	"fmt"
	"go/types"
	"os"
	"path/filepath"
	"sort"
	"strings"

	"github.com/nspcc-dev/neo-go/pkg/neotest"
	"github.com/nspcc-dev/neo-go/pkg/smartcontract"
	"github.com/nspcc-dev/neo-go/pkg/vm/vmstate"
	"golang.org/x/tools/go/ssa"
)

type kernelContract struct {
	hash [20]byte
	dir  string
}

func (w *World) kernelCall(pkg string, fn *ssa.Function, goArgs []any) (bool, Value) {
	if w.kernels == nil {
		w.kernels = map[string]*neotest.Contract{}
	}
	key := pkg + "." + fn.Name()
	c, ok := w.kernels[key]
	if !ok {
		c = w.buildKernel(pkg, fn)
		w.kernels[key] = c
		rawManifest, _ := jsonMarshal(c.Manifest)
		neb, _ := c.NEF.Bytes()
		script, err := smartcontract.CreateCallScript(w.ex.Chain.ManagementContractHash(), "deploy", neb, rawManifest, nil)
		if err != nil {
			panic(err)
		}
		aer := w.sendScript(script, w.uniq(w.validator))
		if aer.VMState != vmstate.Halt {
			panic(failNow{"deploy of kernel wrapper faulted: " + aer.FaultException})
		}
	}
	script, err := smartcontract.CreateCallScript(c.Hash, "zzKernel", goArgs...)
	if err != nil {
		panic(err)
	}
	aer := w.sendScript(script, []neotest.Signer{w.payer})
	if aer.VMState != vmstate.Halt {
		return false, NullV{}
	}
	if len(aer.Stack) == 0 {
		return true, NullV{}
	}
	return true, fromItem(aer.Stack[0])
}

func (w *World) buildKernel(pkg string, fn *ssa.Function) *neotest.Contract {
	mod, _ := os.MkdirTemp("", "neosym-kernel")
	w.t.cleanups = append(w.t.cleanups, func() { os.RemoveAll(mod) })
	eng := filepath.Join(verifRoot, "engine")
	gm, _ := os.ReadFile(filepath.Join(eng, "go.mod"))
	gm = []byte(strings.Replace(string(gm), "=> /repo", "=> "+repoRoot, 1))
	os.WriteFile(filepath.Join(mod, "go.mod"), gm, 0644)
	gs, _ := os.ReadFile(filepath.Join(eng, "go.sum"))
	os.WriteFile(filepath.Join(mod, "go.sum"), gs, 0644)
	dir := filepath.Join(mod, "k")
	os.MkdirAll(dir, 0755)
	src := w.contractDir(pkg)
	files, _ := filepath.Glob(filepath.Join(src, "*.go"))
	pkgName := ""
	for _, f := range files {
		if strings.HasSuffix(f, "_test.go") {
			continue
		}
		data, _ := os.ReadFile(f)
		txt := strings.Replace(string(data), "func _deploy(", "func zzDisabledDeploy(", 1)
		for _, l := range strings.Split(txt, "\n") {
			if strings.HasPrefix(l, "package ") {
				pkgName = strings.TrimSpace(l[8:])
				break
			}
		}
		os.WriteFile(filepath.Join(dir, filepath.Base(f)), []byte(txt), 0644)
	}
	cfg, _ := os.ReadFile(filepath.Join(src, "config.yml"))
	lines := strings.Split(string(cfg), "\n")
	for i, l := range lines {
		if strings.HasPrefix(l, "name:") {
			lines[i] = "name: \"neosym kernel wrapper " + pkg + "." + fn.Name() + "\""
		}
	}
	os.WriteFile(filepath.Join(dir, "config.yml"), []byte(strings.Join(lines, "\n")), 0644)
	// the wrapper
	imports := map[string]string{}
	qual := func(p *types.Package) string {
		if p.Path() == fn.Pkg.Pkg.Path() {
			return ""
		}
		imports[p.Path()] = p.Name()
		return p.Name()
	}
	sig := fn.Signature
	// A []byte parameter of an exported method arrives as an immutable ByteString; inside a contract every
	// caller passes a Buffer (x.([]byte) and slicing convert), and kernels may write into it
	// (container.counterFromBytes swaps the two bytes in place). The wrapper hands over a Buffer copy.
	var params, names, prologue []string
	for i := 0; i < sig.Params().Len(); i++ {
		n := fmt.Sprintf("a%d", i)
		pt := sig.Params().At(i).Type()
		if sl, ok := pt.(*types.Slice); ok {
			if bt, ok := sl.Elem().(*types.Basic); ok && bt.Kind() == types.Uint8 {
				prologue = append(prologue, fmt.Sprintf("b%d := append([]byte{}, %s...)", i, n))
				names = append(names, fmt.Sprintf("b%d", i))
				params = append(params, n+" "+types.TypeString(pt, qual))
				continue
			}
		}
		names = append(names, n)
		params = append(params, n+" "+types.TypeString(pt, qual))
	}
	ret, call := "", fn.Name()+"("+strings.Join(names, ", ")+")"
	switch sig.Results().Len() {
	case 0:
	case 1:
		ret = types.TypeString(sig.Results().At(0).Type(), qual)
		call = "return " + call
	default:
		panic("kernel with several results")
	}
	var imp []string
	for p, n := range imports {
		imp = append(imp, fmt.Sprintf("import %s %q", n, p))
	}
	sort.Strings(imp)
	wrapper := fmt.Sprintf("package %s\n\n%s\n\n// ZzKernel exposes the kernel under test.\nfunc ZzKernel(%s) %s {\n\t%s\n}\n",
		pkgName, strings.Join(imp, "\n"), strings.Join(params, ", "), ret, strings.Join(append(prologue, call), "\n\t"))
	os.WriteFile(filepath.Join(dir, "zz_kernel.go"), []byte(wrapper), 0644)
	return neotest.CompileFile(w.t, w.validator.ScriptHash(), dir, filepath.Join(dir, "config.yml"))
}
