module neosym

go 1.23

require (
	github.com/google/uuid v1.6.0
	github.com/mr-tron/base58 v1.2.0
	github.com/nspcc-dev/neo-go v0.107.0
	github.com/nspcc-dev/neo-go/pkg/interop v0.0.0-20240729160116-d8e3e57f88f2
	github.com/stretchr/testify v1.9.0
	go.uber.org/zap v1.27.0
)

require (
	github.com/antlr/antlr4/runtime/Go/antlr/v4 v4.0.0-20221202181307-76fa05c21b12 // indirect
	github.com/beorn7/perks v1.0.1 // indirect
	github.com/bits-and-blooms/bitset v1.14.2 // indirect
	github.com/cespare/xxhash/v2 v2.3.0 // indirect
	github.com/consensys/bavard v0.1.13 // indirect
	github.com/consensys/gnark-crypto v0.14.0 // indirect
	github.com/cpuguy83/go-md2man/v2 v2.0.4 // indirect
	github.com/davecgh/go-spew v1.1.1 // indirect
	github.com/decred/dcrd/dcrec/secp256k1/v4 v4.3.0 // indirect
	github.com/golang/protobuf v1.5.3 // indirect
	github.com/golang/snappy v0.0.1 // indirect
	github.com/gorilla/websocket v1.5.3 // indirect
	github.com/hashicorp/golang-lru/v2 v2.0.7 // indirect
	github.com/holiman/uint256 v1.3.1 // indirect
	github.com/mmcloughlin/addchain v0.4.0 // indirect
	github.com/munnerz/goautoneg v0.0.0-20191010083416-a7dc8b61c822 // indirect
	github.com/nspcc-dev/go-ordered-json v0.0.0-20240830112754-291b000d1f3b // indirect
	github.com/nspcc-dev/hrw/v2 v2.0.1 // indirect
	github.com/nspcc-dev/neofs-api-go/v2 v2.14.1-0.20240305074711-35bc78d84dc4 // indirect
	github.com/nspcc-dev/neofs-sdk-go v1.0.0-rc.12 // indirect
	github.com/nspcc-dev/rfc6979 v0.2.3 // indirect
	github.com/nspcc-dev/tzhash v1.7.2 // indirect
	github.com/pierrec/lz4 v2.6.1+incompatible // indirect
	github.com/pmezard/go-difflib v1.0.0 // indirect
	github.com/prometheus/client_golang v1.20.2 // indirect
	github.com/prometheus/client_model v0.6.1 // indirect
	github.com/prometheus/common v0.55.0 // indirect
	github.com/prometheus/procfs v0.15.1 // indirect
	github.com/rogpeppe/go-internal v1.11.0 // indirect
	github.com/russross/blackfriday/v2 v2.1.0 // indirect
	github.com/syndtr/goleveldb v1.0.1-0.20210305035536-64b5b1c73954 // indirect
	github.com/twmb/murmur3 v1.1.8 // indirect
	github.com/urfave/cli/v2 v2.27.4 // indirect
	github.com/xrash/smetrics v0.0.0-20240521201337-686a1a2994c1 // indirect
	go.etcd.io/bbolt v1.3.11 // indirect
	go.uber.org/multierr v1.11.0 // indirect
	golang.org/x/crypto v0.26.0 // indirect
	golang.org/x/exp v0.0.0-20240823005443-9b4947da3948 // indirect
	golang.org/x/mod v0.22.0 // indirect
	golang.org/x/net v0.34.0 // indirect
	golang.org/x/sync v0.10.0 // indirect
	golang.org/x/sys v0.29.0 // indirect
	golang.org/x/term v0.23.0 // indirect
	golang.org/x/text v0.17.0 // indirect
	golang.org/x/tools v0.29.0
	google.golang.org/genproto/googleapis/rpc v0.0.0-20240221002015-b0ce06bbee7c // indirect
	google.golang.org/grpc v1.62.0 // indirect
	google.golang.org/protobuf v1.34.2 // indirect
	gopkg.in/yaml.v3 v3.0.1
	rsc.io/tmplfunc v0.0.3 // indirect
)

require github.com/nspcc-dev/neofs-contract v0.0.0

replace github.com/nspcc-dev/neofs-contract => /repo

replace golang.org/x/net v0.34.0 => golang.org/x/net v0.28.0
