package main

// Replay of native-Go harnesses (package deploy): the harness is compiled into the real package with
// `go test -overlay`, the nondet functions return the model's values, and the assertions/cover points are
// evaluated by the real code.

import (
	"encoding/json"
	"fmt"
	"os"
	"os/exec"
	"path/filepath"
	"strings"
)

const nativePreludeReplay = `
import (
	"encoding/json"
	"fmt"
	"strconv"
	"testing"
)

var vModel = map[string]string{}
var vParams []int
var vFails = map[string]int{}
var vHolds = map[string]int{}
var vCovers = map[string]int{}

type vStop struct{}

func vNum(tag string) uint64 {
	n, _ := strconv.ParseUint(vModel[tag], 10, 64)
	return n
}
func vInt(tag string) int {
	n, _ := strconv.ParseInt(vModel[tag], 10, 64)
	return int(n)
}
func vBool(tag string) bool   { return vModel[tag] == "true" }
func vU64(tag string) uint64  { return vNum(tag) }
func vU32(tag string) uint32  { return uint32(vNum(tag)) }
func vParam(i int) int        { return vParams[i] }
func vBytes(tag string, n int) []byte {
	b := make([]byte, n)
	for i := range b {
		b[i] = byte(vNum(tag + "_" + strconv.Itoa(i)))
	}
	return b
}
func vEq(a, b []byte) bool {
	if len(a) != len(b) {
		return false
	}
	for i := range a {
		if a[i] != b[i] {
			return false
		}
	}
	return true
}
func vAssume(c bool) {
	if !c {
		panic(vStop{})
	}
}
func vAssert(c bool, id string) {
	if c {
		vHolds[id]++
		return
	}
	vFails[id]++
	panic(vStop{})
}
func vKnown(c bool, id string) { vAssert(c, id) }
func vCover(id string)         { vCovers[id]++ }
func vCoverIf(c bool, id string) {
	if c {
		vCovers[id]++
	}
}

func TestZzVerifReplay(t *testing.T) {
	func() {
		defer func() {
			if r := recover(); r != nil {
				if _, ok := r.(vStop); !ok {
					panic(r)
				}
			}
		}()
		%s()
	}()
	out, _ := json.Marshal(map[string]any{"fails": vFails, "holds": vHolds, "covers": vCovers})
	fmt.Println("ZZREPLAY " + string(out))
}
`

type nativeResult struct {
	Fails  map[string]int `json:"fails"`
	Holds  map[string]int `json:"holds"`
	Covers map[string]int `json:"covers"`
}

func nativeReplay(h *Harness, params []int, model map[string]string) (*nativeResult, string) {
	tmp, err := os.MkdirTemp("", "neosym-native")
	if err != nil {
		return nil, err.Error()
	}
	defer os.RemoveAll(tmp)
	replace := map[string]string{}
	hdir := filepath.Join(verifRoot, "harness", h.Pkg)
	files, _ := filepath.Glob(filepath.Join(hdir, "*.go"))
	pkgName := ""
	for _, f := range files {
		replace[filepath.Join(pkgDir(h.Pkg), "zz_verif_"+filepath.Base(f))] = f
		src, _ := os.ReadFile(f)
		for _, l := range strings.Split(string(src), "\n") {
			if strings.HasPrefix(l, "package ") {
				pkgName = strings.TrimSpace(l[8:])
				break
			}
		}
	}
	var init strings.Builder
	fmt.Fprintf(&init, "\nfunc init() {\n")
	for k, v := range model {
		fmt.Fprintf(&init, "\tvModel[%q] = %q\n", k, v)
	}
	fmt.Fprintf(&init, "\tvParams = []int{")
	for _, p := range params {
		fmt.Fprintf(&init, "%d, ", p)
	}
	fmt.Fprintf(&init, "}\n}\n")
	prelude := "package " + pkgName + "\n" + fmt.Sprintf(nativePreludeReplay, h.Func) + init.String()
	pfile := filepath.Join(tmp, "prelude_test.go")
	os.WriteFile(pfile, []byte(prelude), 0644)
	replace[filepath.Join(pkgDir(h.Pkg), "zz_verif_prelude_test.go")] = pfile
	ov, _ := json.Marshal(map[string]any{"Replace": replace})
	ovFile := filepath.Join(tmp, "overlay.json")
	os.WriteFile(ovFile, ov, 0644)
	cmd := exec.Command("go", "test", "-vet=off", "-count=1", "-run", "^TestZzVerifReplay$", "-overlay", ovFile, "-v", "./"+filepath.Base(pkgDir(h.Pkg))+"/")
	cmd.Dir = repoRoot
	cmd.Env = append(os.Environ(), "GOFLAGS=-mod=mod", "GOPROXY=off", "GOSUMDB=off", "GOTOOLCHAIN=local")
	out, _ := cmd.CombinedOutput()
	for _, l := range strings.Split(string(out), "\n") {
		if strings.HasPrefix(l, "ZZREPLAY ") {
			var r nativeResult
			if json.Unmarshal([]byte(l[9:]), &r) == nil {
				return &r, ""
			}
		}
	}
	tail := string(out)
	if len(tail) > 500 {
		tail = tail[len(tail)-500:]
	}
	return nil, "native replay failed: " + tail
}
