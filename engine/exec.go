package main

import (
	"fmt"
	"go/constant"
	"go/token"
	"go/types"
	"math/big"
	"os"
	"sort"
	"strings"

	"golang.org/x/tools/go/ssa"
)

// ---------- path state ----------
type storeNode struct {
	prev  *storeNode
	key   []*T
	val   Value // nil = tombstone
	n     int
	guard *T // nil = unconditional; otherwise the write happened only where guard holds (merged paths)
}

func (n *storeNode) g() *T {
	if n.guard == nil {
		return tTrue
	}
	return n.guard
}

type notif struct {
	contract int
	name     string
	args     []Value
}

type notifNode struct {
	prev  *notifNode
	n     notif
	cnt   int // depth
	guard *T  // nil = unconditional
}

func (n *notifNode) g() *T {
	if n.guard == nil {
		return tTrue
	}
	return n.guard
}

func guardAnd(g, c *T) *T {
	if g == nil {
		return c
	}
	return And(g, c)
}

// mergeStores joins two storage logs that share an ancestor: writes made on one side only become
// guarded by that side's path condition (the two conditions are disjoint: they come from one fork).
func mergeStores(a, b *storeNode, ca, cb *T) *storeNode {
	if a == b {
		return a
	}
	da, db := 0, 0
	if a != nil {
		da = a.n
	}
	if b != nil {
		db = b.n
	}
	var ea, eb []*storeNode
	x, y := a, b
	for da > db {
		ea = append(ea, x)
		x = x.prev
		da--
	}
	for db > da {
		eb = append(eb, y)
		y = y.prev
		db--
	}
	for x != y {
		ea = append(ea, x)
		eb = append(eb, y)
		x, y = x.prev, y.prev
	}
	anc := x
	// same writes on both sides (same keys, mergeable values): merge value-wise, keep the log short
	if len(ea) == len(eb) {
		same := true
		vals := make([]Value, len(ea))
		for i := range ea {
			p, q := ea[i], eb[i]
			if p.guard != nil || q.guard != nil || bytesEq(p.key, q.key) != tTrue || (p.val == nil) != (q.val == nil) {
				same = false
				break
			}
			if p.val != nil {
				m, ok := mergeVal(ca, p.val, q.val)
				if !ok {
					same = false
					break
				}
				vals[i] = m
			}
		}
		if same {
			cur := anc
			for i := len(ea) - 1; i >= 0; i-- {
				cur = &storeNode{prev: cur, key: ea[i].key, val: vals[i], n: depthOf(cur) + 1}
			}
			return cur
		}
	}
	cur := anc
	for i := len(ea) - 1; i >= 0; i-- {
		cur = &storeNode{prev: cur, key: ea[i].key, val: ea[i].val, n: depthOf(cur) + 1, guard: guardAnd(ea[i].guard, ca)}
	}
	for i := len(eb) - 1; i >= 0; i-- {
		cur = &storeNode{prev: cur, key: eb[i].key, val: eb[i].val, n: depthOf(cur) + 1, guard: guardAnd(eb[i].guard, cb)}
	}
	return cur
}

func depthOf(n *storeNode) int {
	if n == nil {
		return 0
	}
	return n.n
}

func mergeNotifs(a, b *notifNode, ca, cb *T) *notifNode {
	if a == b {
		return a
	}
	da, db := 0, 0
	if a != nil {
		da = a.cnt
	}
	if b != nil {
		db = b.cnt
	}
	var ea, eb []*notifNode
	x, y := a, b
	for da > db {
		ea = append(ea, x)
		x = x.prev
		da--
	}
	for db > da {
		eb = append(eb, y)
		y = y.prev
		db--
	}
	for x != y {
		ea = append(ea, x)
		eb = append(eb, y)
		x, y = x.prev, y.prev
	}
	anc := x
	dep := func(n *notifNode) int {
		if n == nil {
			return 0
		}
		return n.cnt
	}
	if len(ea) == len(eb) {
		same := true
		args := make([][]Value, len(ea))
		for i := range ea {
			p, q := ea[i], eb[i]
			if p.guard != nil || q.guard != nil || p.n.name != q.n.name || p.n.contract != q.n.contract || len(p.n.args) != len(q.n.args) {
				same = false
				break
			}
			m, ok := mergeVals(ca, p.n.args, q.n.args, func(f []Value) Value { return f })
			if !ok {
				same = false
				break
			}
			args[i] = m.([]Value)
		}
		if same {
			cur := anc
			for i := len(ea) - 1; i >= 0; i-- {
				cur = &notifNode{prev: cur, n: notif{ea[i].n.contract, ea[i].n.name, args[i]}, cnt: dep(cur) + 1}
			}
			return cur
		}
	}
	cur := anc
	for i := len(ea) - 1; i >= 0; i-- {
		cur = &notifNode{prev: cur, n: ea[i].n, cnt: dep(cur) + 1, guard: guardAnd(ea[i].guard, ca)}
	}
	for i := len(eb) - 1; i >= 0; i-- {
		cur = &notifNode{prev: cur, n: eb[i].n, cnt: dep(cur) + 1, guard: guardAnd(eb[i].guard, cb)}
	}
	return cur
}

type State struct {
	pc     *T
	heap   map[int]interface{}
	store  *storeNode
	notifs *notifNode
	// chain clock as seen by this path (per state: paths advance it independently)
	height   *T
	lastTime *T
	gas      map[string]*T // native GAS ledger: account (BE hash) -> balance
	pending  []signer      // signers collected by vSign for the next vInvoke
	txStore0 *storeNode    // storage log at the start of the last transaction (for vEffects)
	txGas0   map[string]*T
}

func (s *State) fork(cond *T) *State {
	h := make(map[int]interface{}, len(s.heap))
	for k, v := range s.heap {
		h[k] = v
	}
	g := make(map[string]*T, len(s.gas))
	for k, v := range s.gas {
		g[k] = v
	}
	return &State{pc: And(s.pc, cond), heap: h, store: s.store, notifs: s.notifs, height: s.height, lastTime: s.lastTime, gas: g,
		pending: s.pending, txStore0: s.txStore0, txGas0: s.txGas0}
}

// St is a state standing at a program point of one frame.
type St struct {
	*State
	blk *ssa.BasicBlock
	ip  int
	env map[ssa.Value]Value
	ver int // bumped whenever the state changes (executed or merged)
	pruned  int // ver+1 at which dead bindings were dropped
	settled int // ver+1 at which the state was found unmergeable with every other state at its point
	sp  []*T
	spc *T
}

// deferred calls of a frame are kept in its environment under deferKey (so that forks copy them)
type deferred struct {
	fn   Value
	args []Value
}
type DeferV struct{ list []deferred }

var deferKey ssa.Value = &ssa.Const{}

// non-escaping allocations of a frame (ssa.Alloc with Heap == false) are freed when the frame returns, so
// that dead locals of different shapes do not keep paths apart; their ids live in the env under localsKey
type LocalsV struct{ ids []int }

var localsKey ssa.Value = &ssa.Const{}

func freeLocals(s *St) {
	if lv, ok := s.env[localsKey].(LocalsV); ok {
		for _, id := range lv.ids {
			delete(s.heap, id)
		}
	}
}

type panicInfo struct {
	val       Value
	recovered bool
}

type pairKey struct {
	a, b   *St
	va, vb int
}

func (s *St) spineOf() []*T {
	if s.spc != s.pc {
		s.sp, s.spc = spine(s.pc), s.pc
	}
	return s.sp
}

type Out struct {
	*State
	panicked bool
	val      Value
}

type fnInfo struct {
	order map[*ssa.BasicBlock]int
	loops map[*ssa.BasicBlock]map[*ssa.BasicBlock]bool
	// shapeRel: integers that determine shapes (slice bounds, string/byte-slice indexes, make sizes);
	// two states are not merged if that would turn such a value from two constants into an ite.
	shapeRel map[ssa.Value]bool
	liveIn   map[*ssa.BasicBlock]map[ssa.Value]bool // SSA values live at block entry (after the phis)
}

// liveness: backward data-flow over the SSA; a value is live at the entry of a block (after its phis) if some
// path from there uses it. Dead bindings are dropped before states are merged, so that temporaries of
// different shapes do not keep paths apart.
func liveness(fn *ssa.Function) map[*ssa.BasicBlock]map[ssa.Value]bool {
	liveIn := map[*ssa.BasicBlock]map[ssa.Value]bool{}
	for _, b := range fn.Blocks {
		liveIn[b] = map[ssa.Value]bool{}
	}
	tracked := func(v ssa.Value) bool {
		switch v.(type) {
		case *ssa.Const, *ssa.Global, *ssa.Function, *ssa.Builtin:
			return false
		}
		return v != nil
	}
	for changed := true; changed; {
		changed = false
		for i := len(fn.Blocks) - 1; i >= 0; i-- {
			b := fn.Blocks[i]
			live := map[ssa.Value]bool{}
			for _, sb := range b.Succs {
				for v := range liveIn[sb] {
					live[v] = true
				}
				// phi operands coming from this block are used on the edge
				for _, in := range sb.Instrs {
					phi, ok := in.(*ssa.Phi)
					if !ok {
						break
					}
					for k, p := range sb.Preds {
						if p == b && tracked(phi.Edges[k]) {
							live[phi.Edges[k]] = true
						}
					}
				}
			}
			for k := len(b.Instrs) - 1; k >= 0; k-- {
				in := b.Instrs[k]
				if _, isPhi := in.(*ssa.Phi); isPhi {
					break // liveIn is taken after the phis; their operands live on the incoming edges
				}
				if v, ok := in.(ssa.Value); ok {
					delete(live, v)
				}
				for _, op := range in.Operands(nil) {
					if *op != nil && tracked(*op) {
						live[*op] = true
					}
				}
			}
			// phi results that are live stay live (they are defined at entry, before "after the phis")
			cur := liveIn[b]
			for v := range live {
				if !cur[v] {
					cur[v] = true
					changed = true
				}
			}
		}
	}
	return liveIn
}

func isStringOrBytes(t types.Type) bool {
	if b, ok := t.Underlying().(*types.Basic); ok && b.Info()&types.IsString != 0 {
		return true
	}
	return isByteSlice(t)
}

func shapeRelevant(fn *ssa.Function) map[ssa.Value]bool {
	rel := map[ssa.Value]bool{}
	var work []ssa.Value
	mark := func(v ssa.Value) {
		if v != nil && !rel[v] {
			rel[v] = true
			work = append(work, v)
		}
	}
	for _, b := range fn.Blocks {
		for _, in := range b.Instrs {
			switch x := in.(type) {
			case *ssa.Slice:
				mark(x.Low)
				mark(x.High)
				mark(x.Max)
			case *ssa.MakeSlice:
				mark(x.Len)
				mark(x.Cap)
			case *ssa.Index:
				if isStringOrBytes(x.X.Type()) {
					mark(x.Index)
				}
			case *ssa.IndexAddr:
				if isStringOrBytes(x.X.Type()) {
					mark(x.Index)
				}
			}
		}
	}
	for len(work) > 0 {
		v := work[len(work)-1]
		work = work[:len(work)-1]
		switch x := v.(type) {
		case *ssa.Phi:
			for _, e := range x.Edges {
				mark(e)
			}
		case *ssa.BinOp:
			mark(x.X)
			mark(x.Y)
		case *ssa.Convert:
			mark(x.X)
		case *ssa.ChangeType:
			mark(x.X)
		case *ssa.UnOp:
			mark(x.X)
		}
	}
	return rel
}

type signer struct {
	present *T
	hash    []*T
}

type Engine struct {
	prog     *ssa.Program
	pkg      *ssa.Package
	info     map[*ssa.Function]*fnInfo
	globals  map[*ssa.Global]int
	nextObj  int
	ranges   []*T
	named    map[string]BytesV
	signers  []signer // of the running transaction
	depth    int      // contract call depth (0 = entry)
	unwind   int
	funcs    map[string]int
	stats    struct{ blocks, merges, forks, feas, queries, paths, instrs int }
	solver   *Solver
	fresh    int
	params   []int
	pendingBind []Value
	txTime     *T // timestamp seen by the running invocation
	sigWho     map[int]*T
	sigMembers []string
	irKeys     []string // tags of the designated Inner Ring keys (the latest designation)
	irHistory  []irDesignation
	ufs        map[string][]ufEntry
	linked   map[string]*ssa.Package // contract name -> package
	names    []string                // contract index -> name
	cur      int                     // index of the executing contract
	callers  []int                   // stack of calling contracts (-1 = entry script)
	world    *World
	model    map[string]string // non-nil: replay mode (concrete interpretation)
	worldUsed bool
	roDepth   int
	panicStack []*panicInfo
	updateFromVersion *T
	harnessPkg string
	nativeMode bool
	feasCache map[[2]int]bool
	allCovers bool
	sigMsg    map[int]BytesV
	obs       map[string]*Obligation
	obOrder   []string
	unwindHit []string
	// replay bookkeeping
	replayCovers   map[string]int
	replayHolds    map[string]int
	replayFails    map[string]int
assumeSites map[string][2]int // vAssume call site -> {paths arrived, paths survived} (symbolic run)
		replayKnown    map[string]bool // failing vKnown assertions of a replay
	replayDiverged bool
	replayLog      []string
}

func (e *Engine) rlog(s string) { e.replayLog = append(e.replayLog, s) }

func (e *Engine) obligation(id, kind string) *Obligation {
	if o, ok := e.obs[id]; ok {
		return o
	}
	o := &Obligation{ID: id, Kind: kind}
	e.obs[id] = o
	e.obOrder = append(e.obOrder, id)
	return o
}


func (e *Engine) alloc(s *State, o interface{}) int {
	e.nextObj++
	s.heap[e.nextObj] = o
	return e.nextObj
}

func (e *Engine) namedBytes(n string, ln int) BytesV {
	if b, ok := e.named[n]; ok {
		return b
	}
	b := make([]*T, ln)
	for i := range b {
		b[i] = VarByte(fmt.Sprintf("%s_%d", n, i))
	}
	e.named[n] = BytesV{b}
	if ln == 20 { // environment assumption: no input equals the hash of the invoking script
		r := Not(bytesEq(b, constBytes(entryScriptHash).b))
		e.ranges = append(e.ranges, r)
		e.solver.assertBase(r)
	}
	return BytesV{b}
}

var progress = os.Getenv("NEOSYM_PROGRESS") != ""

const entryScriptHash = "\xeeneosym-entry-script"

// ---------- CFG analysis ----------
func (e *Engine) analyse(fn *ssa.Function) *fnInfo {
	if fi, ok := e.info[fn]; ok {
		return fi
	}
	fi := &fnInfo{order: map[*ssa.BasicBlock]int{}, loops: map[*ssa.BasicBlock]map[*ssa.BasicBlock]bool{}}
	seen := map[*ssa.BasicBlock]bool{}
	var post []*ssa.BasicBlock
	var dfs func(b *ssa.BasicBlock)
	dfs = func(b *ssa.BasicBlock) {
		seen[b] = true
		for i := len(b.Succs) - 1; i >= 0; i-- {
			if !seen[b.Succs[i]] {
				dfs(b.Succs[i])
			}
		}
		post = append(post, b)
	}
	dfs(fn.Blocks[0])
	for i, b := range post {
		fi.order[b] = len(post) - 1 - i
	}
	for _, u := range fn.Blocks {
		for _, h := range u.Succs {
			if h.Dominates(u) {
				body := fi.loops[h]
				if body == nil {
					body = map[*ssa.BasicBlock]bool{h: true}
					fi.loops[h] = body
				}
				stack := []*ssa.BasicBlock{u}
				for len(stack) > 0 {
					x := stack[len(stack)-1]
					stack = stack[:len(stack)-1]
					if body[x] {
						continue
					}
					body[x] = true
					stack = append(stack, x.Preds...)
				}
			}
		}
	}
	fi.shapeRel = shapeRelevant(fn)
	fi.liveIn = liveness(fn)
	e.info[fn] = fi
	return fi
}

// ---------- merging ----------
func (e *Engine) mergeSt(a, b *St) bool {
	// conditions relative to the common prefix of the two path conditions: smaller ite/guard terms
	sa, sb := spine(a.pc), spine(b.pc)
	k := 0
	for k < len(sa) && k < len(sb) && sa[k] == sb[k] {
		k++
	}
	ra, rb := conj(sa[k:]), conj(sb[k:])
	ca, cb := ra, rb
	if k < len(sa) && k < len(sb) && sa[k] == Not(sb[k]) { // the first differing conjunct separates the two sides
		ca, cb = sa[k], sb[k]
	}
	if a.txStore0 != b.txStore0 || len(a.pending) != len(b.pending) {
		return mergeFail(1, a)
	}
	for i := range a.pending {
		if a.pending[i].present != b.pending[i].present || !(bytesEq(a.pending[i].hash, b.pending[i].hash) == tTrue) {
			return mergeFail(2, a)
		}
	}
	if len(a.txGas0) != len(b.txGas0) {
		return mergeFail(3, a)
	}
	for k, v := range a.txGas0 {
		if b.txGas0[k] != v {
			return mergeFail(4, a)
		}
	}
	// heap: same objects, mergeable contents
	heap := make(map[int]interface{}, len(a.heap))
	for id, oa := range a.heap {
		ob, ok := b.heap[id]
		if !ok {
			heap[id] = oa // allocated on one side only: unreachable from the other side's values
			continue
		}
		switch x := oa.(type) {
		case CellObj:
			y, ok := ob.(CellObj)
			if !ok {
				return mergeFail(5, a)
			}
			m, ok := mergeVal(ca, x.v, y.v)
			if !ok {
				if progress {
					nm := "?"
					for k, v := range a.env {
						if p, isP := v.(PtrV); isP && p.id == id && k != nil {
							nm = k.Name() + " " + k.String()
						}
					}
					for g, gid := range e.globals {
						if gid == id {
							nm = "global " + g.Name()
						}
					}
					mergeFails[fmt.Sprintf("cell %s: %T vs %T", nm, x.v, y.v)]++
				}
				return mergeFail(6, a)
			}
			heap[id] = CellObj{m}
		case ArrObj:
			y, ok := ob.(ArrObj)
			if !ok || len(x.e) != len(y.e) {
				return mergeFail(7, a)
			}
			m, ok := mergeVals(ca, x.e, y.e, func(f []Value) Value { return f })
			if !ok {
				return mergeFail(8, a)
			}
			heap[id] = ArrObj{m.([]Value)}
		case IterObj:
			y, ok := ob.(IterObj)
			if !ok || x.pos != y.pos || len(x.items) != len(y.items) {
				return mergeFail(9, a)
			}
			heap[id] = x
		default:
			return mergeFail(10, a)
		}
	}
	for id, ob := range b.heap {
		if _, ok := a.heap[id]; !ok {
			heap[id] = ob
		}
	}
	env := make(map[ssa.Value]Value, len(a.env))
	for k, va := range a.env {
		vb, ok := b.env[k]
		if !ok {
			continue
		}
		if k != nil && a.blk != nil && e.info[a.blk.Parent()] != nil && e.info[a.blk.Parent()].shapeRel[k] {
			if x, ok := va.(IntV); ok {
				if y, ok := vb.(IntV); ok && x.t != y.t {
					return mergeFail(99, a)
				}
			}
		}
		m, ok := mergeVal(ca, va, vb)
		if !ok {
			if progress && k != nil {
				mergeFails[fmt.Sprintf("env %s.%s = %s: %s vs %s", a.blk.Parent().Name(), k.Name(), k.String(), shapeStr(va), shapeStr(vb))]++
			}
			return mergeFail(11, a)
		}
		env[k] = m
	}
	a.env, a.heap = env, heap
	gas := map[string]*T{}
	for k, v := range a.gas {
		o, ok := b.gas[k]
		if !ok {
			o = I(0)
		}
		gas[k] = Ite(ca, v, o)
	}
	for k, v := range b.gas {
		if _, ok := a.gas[k]; !ok {
			gas[k] = Ite(ca, I(0), v)
		}
	}
	a.State = &State{pc: And(conj(sa[:k]), Or(ra, rb)), heap: heap, store: mergeStores(a.store, b.store, ca, cb), notifs: mergeNotifs(a.notifs, b.notifs, ca, cb),
		height: Ite(ca, a.height, b.height), lastTime: Ite(ca, a.lastTime, b.lastTime), gas: gas,
		pending: a.pending, txStore0: a.txStore0, txGas0: a.txGas0}
	e.stats.merges++
	return true
}

var mergeFails = map[string]int{}

func mergeFail(site int, a *St) bool {
	if progress {
		fn := ""
		if a.blk != nil {
			fn = a.blk.Parent().Name()
		}
		mergeFails[fmt.Sprintf("%s#%d", fn, site)]++
	}
	return false
}

// ---------- frame execution ----------
type succ struct {
	st   *St
	back *ssa.BasicBlock
}

func (e *Engine) runFrameBound(fn *ssa.Function, args []Value, bind []Value, s *State) []Out {
	e.pendingBind = bind
	return e.runFrame(fn, args, s)
}

func (e *Engine) runFrame(fn *ssa.Function, args []Value, s *State) []Out {
	if fn.Blocks == nil {
		panic("no body: " + fn.String())
	}
	e.funcs[fn.String()]++
	fi := e.analyse(fn)
	s0 := &St{State: s, env: map[ssa.Value]Value{}}
	for i, p := range fn.Params {
		s0.env[p] = args[i]
	}
	for i, fv := range fn.FreeVars {
		s0.env[fv] = e.pendingBind[i]
	}
	e.pendingBind = nil
	e.enter(s0, nil, fn.Blocks[0])
	active := []*St{s0}
	failed := map[pairKey]bool{}
	parked := map[*ssa.BasicBlock][]*St{}
	iters := map[*ssa.BasicBlock]int{}
	var outs []Out
	for {
		for h, ps := range parked {
			busy := false
			for _, a := range active {
				if fi.loops[h][a.blk] {
					busy = true
					break
				}
			}
			if !busy {
				iters[h]++
				if iters[h] > e.unwind {
					e.unwindHit = append(e.unwindHit, fmt.Sprintf("unwinding limit %d hit in %s", e.unwind, fn.String()))
				} else {
					active = append(active, ps...)
				}
				delete(parked, h)
			}
		}
		if len(active) == 0 {
			break
		}
		sort.SliceStable(active, func(i, j int) bool {
			a, b := active[i], active[j]
			if fi.order[a.blk] != fi.order[b.blk] {
				return fi.order[a.blk] < fi.order[b.blk]
			}
			return a.ip < b.ip
		})
		var group []*St
		rest := active
		active = nil
		for _, o := range rest {
			if o.blk == rest[0].blk && o.ip == rest[0].ip {
				group = append(group, o)
			} else {
				active = append(active, o)
			}
		}
		if len(group) > 1 { // drop dead bindings (block entry only: the liveness facts are per block)
			for _, g := range group {
				if g.pruned == g.ver+1 || g.blk == nil {
					continue
				}
				nphi := 0
				for nphi < len(g.blk.Instrs) {
					if _, ok := g.blk.Instrs[nphi].(*ssa.Phi); !ok {
						break
					}
					nphi++
				}
				if g.ip != nphi {
					continue
				}
				live := fi.liveIn[g.blk]
				for k := range g.env {
					if k == deferKey || k == localsKey || k == nil || live[k] {
						continue
					}
					if _, isPhi := k.(*ssa.Phi); isPhi && k.(*ssa.Phi).Block() == g.blk && live[k] {
						continue
					}
					delete(g.env, k)
				}
				g.pruned = g.ver + 1
			}
		}
		// merge the states standing at this point: sorted by path condition (conjunct by conjunct) close
		// relatives are neighbours; each state is offered to its nearest predecessors. Passes repeat while
		// something merged (a merged state has a shorter path condition and may now meet other relatives).
		// States already found pairwise unmergeable ("settled" at their current version) are not re-examined.
		for changed := true; changed && len(group) > 1; {
			changed = false
			allSettled := true
			for _, g := range group {
				if g.settled != g.ver+1 {
					allSettled = false
					break
				}
			}
			if allSettled {
				break
			}
			sort.SliceStable(group, func(i, j int) bool {
				a, b := group[i].spineOf(), group[j].spineOf()
				for k := 0; k < len(a) && k < len(b); k++ {
					if a[k] != b[k] {
						return a[k].id < b[k].id
					}
				}
				return len(a) < len(b)
			})
			out := group[:1:1]
			for _, g := range group[1:] {
				merged := false
				for back := len(out) - 1; back >= 0 && back >= len(out)-6; back-- {
					t := out[back]
					if t.settled == t.ver+1 && g.settled == g.ver+1 {
						continue
					}
					pk := pairKey{t, g, t.ver, g.ver}
					if failed[pk] {
						continue
					}
					if e.mergeSt(t, g) {
						t.ver++
						merged, changed = true, true
						break
					}
					failed[pk] = true
				}
				if !merged {
					out = append(out, g)
				}
			}
			group = out
		}
		for _, g := range group {
			g.settled = g.ver + 1
		}
		if progress && len(group) > 50 && e.stats.blocks%100 == 0 {
			fmt.Fprintf(os.Stderr, "progress: %d unmergeable states at one point of %s (active %d)\n", len(group), fn.Name(), len(active))
		}
		cur := group[0]
		cur.ver++
		active = append(active, group[1:]...)
		next, fin := e.execBlock(fn, cur)
		if dv, ok := cur.env[deferKey].(DeferV); ok && len(dv.list) > 0 {
			var kept []Out
			for _, o := range fin {
				if !o.panicked || isAbort(o.val) {
					kept = append(kept, o)
					continue
				}
				rec, still := e.runDefersPanicking(o, dv.list)
				kept = append(kept, still...)
				for _, r := range rec { // recovered: control continues at the function's recover block
					if fn.Recover == nil {
						kept = append(kept, Out{r.State, false, UnitV{}})
						continue
					}
					st := &St{State: r.State, env: cloneEnv(cur.env)}
					delete(st.env, deferKey)
					e.enter(st, nil, fn.Recover)
					next = append(next, succ{st, nil})
				}
			}
			fin = kept
		}
		outs = append(outs, fin...)
		for _, n := range next {
			if n.back != nil {
				parked[n.back] = append(parked[n.back], n.st)
			} else {
				active = append(active, n.st)
			}
		}
	}
	// merge outcomes of the same kind when possible
	var res []Out
	for _, o := range outs {
		merged := false
		for i := range res {
			r := &res[i]
			if r.panicked == o.panicked {
				a := &St{State: r.State, env: map[ssa.Value]Value{nil: r.val}}
				b := &St{State: o.State, env: map[ssa.Value]Value{nil: o.val}}
				if e.mergeSt(a, b) {
					r.State, r.val = a.State, a.env[nil]
					merged = true
					break
				}
			}
		}
		if !merged {
			res = append(res, o)
		}
	}
	return res
}

func isAbort(v Value) bool {
	if b, ok := v.(BytesV); ok {
		s, _ := isConstBytes(b)
		return s == "ABORT"
	}
	return false
}

// callValue runs a function value (closure or plain function).
func (e *Engine) callValue(f Value, args []Value, s *State) []Out {
	switch fv := f.(type) {
	case ClosureV:
		return e.runFrameBound(fv.fn.(*ssa.Function), args, fv.bind, s)
	case *ssa.Function:
		return e.runFrame(fv, args, s)
	}
	panic(fmt.Sprintf("call of %T", f))
}

// runDefersPanicking runs the deferred calls of a panicking frame (LIFO); recover() inside them returns the
// panic value and stops the panic. Returns the recovered outcomes and the ones still (or newly) panicking.
func (e *Engine) runDefersPanicking(o Out, list []deferred) (recovered, panicking []Out) {
	type st struct {
		out Out
		rec bool
	}
	cur := []st{{o, false}}
	for i := len(list) - 1; i >= 0; i-- {
		var next []st
		for _, c := range cur {
			var info *panicInfo
			if !c.rec {
				info = &panicInfo{val: c.out.val}
			}
			e.panicStack = append(e.panicStack, info)
			outs := e.callValue(list[i].fn, list[i].args, c.out.State)
			e.panicStack = e.panicStack[:len(e.panicStack)-1]
			for _, o2 := range outs {
				switch {
				case o2.panicked: // a new panic replaces the old one
					next = append(next, st{Out{o2.State, true, o2.val}, false})
				case c.rec || (info != nil && info.recovered):
					next = append(next, st{Out{o2.State, false, UnitV{}}, true})
				default:
					next = append(next, st{Out{o2.State, true, c.out.val}, false})
				}
			}
		}
		cur = next
	}
	for _, c := range cur {
		if c.rec {
			recovered = append(recovered, c.out)
		} else {
			panicking = append(panicking, c.out)
		}
	}
	return
}

func (e *Engine) enter(s *St, from, to *ssa.BasicBlock) {
	ip := 0
	var vals []Value
	for ; ip < len(to.Instrs); ip++ {
		phi, ok := to.Instrs[ip].(*ssa.Phi)
		if !ok {
			break
		}
		for i, p := range to.Preds {
			if p == from {
				vals = append(vals, e.get(s, phi.Edges[i]))
				break
			}
		}
	}
	for i := 0; i < ip; i++ {
		s.env[to.Instrs[i].(*ssa.Phi)] = vals[i]
	}
	s.blk, s.ip = to, ip
}

func cloneEnv(m map[ssa.Value]Value) map[ssa.Value]Value {
	n := make(map[ssa.Value]Value, len(m))
	for k, v := range m {
		n[k] = v
	}
	return n
}

func (e *Engine) get(s *St, v ssa.Value) Value {
	switch c := v.(type) {
	case *ssa.Const:
		return e.constVal(c)
	case *ssa.Global:
		return PtrV{id: e.globals[c]}
	case *ssa.Function:
		return c
	}
	r, ok := s.env[v]
	if !ok {
		panic("unbound " + v.Name() + " in " + v.Parent().Name())
	}
	return r
}

func (e *Engine) constVal(c *ssa.Const) Value {
	if c.Value == nil {
		switch c.Type().Underlying().(type) {
		case *types.Slice, *types.Interface, *types.Pointer, *types.Map:
			return NullV{}
		}
		return zeroOf(c.Type())
	}
	switch c.Value.Kind() {
	case constant.Bool:
		return BoolV{B(constant.BoolVal(c.Value))}
	case constant.String:
		return constBytes(constant.StringVal(c.Value))
	case constant.Int:
		if n, ok := constant.Int64Val(c.Value); ok {
			return IntV{I(n)}
		}
		bi, _ := new(big.Int).SetString(c.Value.ExactString(), 10)
		return IntV{IB(bi)}
	}
	panic("const kind")
}

func getPath(v Value, path []int) Value {
	for _, p := range path {
		switch x := v.(type) {
		case StructV:
			if p >= len(x.f) { // a value with fewer fields than its declared type: PICKITEM faults
				panic(vmFault{"field index out of range"})
			}
			v = x.f[p]
		case NullV:
			panic(vmFault{"field of Null"})
		default:
			panic(fmt.Sprintf("getPath on %T", v))
		}
	}
	return v
}

func setPath(v Value, path []int, nv Value) Value {
	if len(path) == 0 {
		return nv
	}
	x := v.(StructV)
	f := append([]Value(nil), x.f...)
	f[path[0]] = setPath(f[path[0]], path[1:], nv)
	return StructV{f}
}

func (e *Engine) load(s *State, p PtrV) Value {
	if p.sym != nil { // select: ite chain over the elements
		arr := s.heap[p.id].(ArrObj).e
		v := arr[len(arr)-1]
		for k := len(arr) - 2; k >= 0; k-- {
			m, ok := mergeVal(Eq(p.sym, I(int64(k))), arr[k], v)
			if !ok {
				panic("symbolic select over heterogeneous array")
			}
			v = m
		}
		return v
	}
	switch o := s.heap[p.id].(type) {
	case CellObj:
		return getPath(o.v, p.path)
	case ArrObj:
		if len(p.path) == 0 { // the whole array as a value: byte arrays are byte strings
			bs := make([]*T, len(o.e))
			for i, v := range o.e {
				iv, ok := v.(IntV)
				if !ok {
					panic("load of a whole non-byte array")
				}
				bs[i] = iv.t
			}
			return BytesV{bs}
		}
		return getPath(o.e[p.path[0]], p.path[1:])
	}
	panic(fmt.Sprintf("load from %T (obj %d)", s.heap[p.id], p.id))
}

func (e *Engine) storeTo(s *State, p PtrV, v Value) {
	if p.sym != nil { // store: every element becomes ite(idx==k, v, old)
		arr := s.heap[p.id].(ArrObj).e
		out := make([]Value, len(arr))
		for k := range arr {
			m, ok := mergeVal(Eq(p.sym, I(int64(k))), v, arr[k])
			if !ok {
				panic("symbolic store over heterogeneous array")
			}
			out[k] = m
		}
		s.heap[p.id] = ArrObj{out}
		return
	}
	switch o := s.heap[p.id].(type) {
	case CellObj:
		s.heap[p.id] = CellObj{setPath(o.v, p.path, v)}
	case ArrObj:
		if len(p.path) == 0 { // *arr = value
			bv, ok := v.(BytesV)
			if !ok || len(bv.b) != len(o.e) {
				panic("store of a whole array: not a byte array of that length")
			}
			el := make([]Value, len(bv.b))
			for i := range el {
				el[i] = IntV{bv.b[i]}
			}
			s.heap[p.id] = ArrObj{el}
			return
		}
		el := append([]Value(nil), o.e...)
		el[p.path[0]] = setPath(el[p.path[0]], p.path[1:], v)
		s.heap[p.id] = ArrObj{el}
	default:
		panic(fmt.Sprintf("store to %T", o))
	}
}

func isByteSlice(t types.Type) bool {
	sl, ok := t.Underlying().(*types.Slice)
	if !ok {
		return false
	}
	b, ok := sl.Elem().Underlying().(*types.Basic)
	return ok && b.Kind() == types.Uint8
}

// execBlock runs one state to the end of its block (or to a call/fork).
func (e *Engine) execBlock(fn *ssa.Function, s *St) ([]succ, []Out) {
	e.stats.blocks++
	if progress && e.stats.blocks%2000 == 0 {
		fmt.Fprintf(os.Stderr, "progress: blocks=%d forks=%d merges=%d feas=%d queries=%d solver=%v in %s\n", e.stats.blocks, e.stats.forks, e.stats.merges, e.stats.feas, e.stats.queries, e.solver.time, fn.Name())
	}
	blk := s.blk
	goTo := func(st *St, to *ssa.BasicBlock) succ {
		e.enter(st, blk, to)
		if to.Dominates(blk) {
			return succ{st, to}
		}
		return succ{st, nil}
	}
	for ip := s.ip; ip < len(blk.Instrs); ip++ {
		e.stats.instrs++
		switch in := blk.Instrs[ip].(type) {
		case *ssa.Alloc:
			et := in.Type().(*types.Pointer).Elem()
			var id int
			if at, ok := et.Underlying().(*types.Array); ok {
				el := make([]Value, at.Len())
				for i := range el {
					el[i] = zeroOf(at.Elem())
				}
				id = e.alloc(s.State, ArrObj{el})
			} else {
				id = e.alloc(s.State, CellObj{zeroOf(et)})
			}
			s.env[in] = PtrV{id: id}
			if !in.Heap {
				lv, _ := s.env[localsKey].(LocalsV)
				s.env[localsKey] = LocalsV{append(append([]int(nil), lv.ids...), id)}
			}
		case *ssa.FieldAddr:
			p := e.get(s, in.X).(PtrV)
			s.env[in] = PtrV{id: p.id, path: append(append([]int(nil), p.path...), in.Field)}
		case *ssa.IndexAddr:
			idx := e.get(s, in.Index).(IntV).t
			if !idx.isC() {
				switch p := e.get(s, in.X).(type) {
				case PtrV:
					s.env[in] = PtrV{id: p.id, sym: idx}
				case ListV:
					s.env[in] = PtrV{id: p.id, sym: idx}
				default:
					panic("symbolic index into " + fmt.Sprintf("%T", p))
				}
				continue
			}
			switch p := e.get(s, in.X).(type) {
			case PtrV:
				if arr, ok := s.heap[p.id].(ArrObj); ok && len(p.path) == 0 && (idx.n.Sign() < 0 || int(idx.n.Int64()) >= len(arr.e)) {
					return nil, []Out{{s.State, true, constBytes("index out of range")}}
				}
				s.env[in] = PtrV{id: p.id, path: append(append([]int(nil), p.path...), int(idx.n.Int64()))}
			case ListV:
				if arr := s.heap[p.id].(ArrObj); idx.n.Sign() < 0 || int(idx.n.Int64()) >= len(arr.e) { // Go panic / VM fault
					return nil, []Out{{s.State, true, constBytes("index out of range")}}
				}
				s.env[in] = PtrV{id: p.id, path: []int{int(idx.n.Int64())}}
			case NullV:
				return nil, []Out{{s.State, true, constBytes("index of nil slice")}}
			case BytesV:
				s.env[in] = PtrV{id: -1, path: []int{int(idx.n.Int64())}, ref: in.X}
			default:
				panic(fmt.Sprintf("IndexAddr on %T", p))
			}
		case *ssa.Store:
			p := e.get(s, in.Addr).(PtrV)
			if p.id == -1 { // element store into a byte buffer: rebinding the SSA name models the mutation
				old := s.env[p.ref.(ssa.Value)].(BytesV)
				nb := append([]*T(nil), old.b...)
				nb[p.path[0]] = e.get(s, in.Val).(IntV).t
				s.env[p.ref.(ssa.Value)] = BytesV{nb}
				continue
			}
			e.storeTo(s.State, p, e.get(s, in.Val))
		case *ssa.UnOp:
			x := e.get(s, in.X)
			switch in.Op {
			case token.MUL:
				if p := x.(PtrV); p.id == -1 {
					s.env[in] = IntV{s.env[p.ref.(ssa.Value)].(BytesV).b[p.path[0]]}
				} else {
					var lv Value
					if f := catchFault(func() { lv = e.load(s.State, p) }); f != "" {
						return nil, []Out{{s.State, true, constBytes(f)}}
					}
					s.env[in] = lv
				}
			case token.NOT:
				s.env[in] = BoolV{Not(x.(BoolV).t)}
			case token.SUB:
				s.env[in] = IntV{Sub(I(0), x.(IntV).t)}
			default:
				panic("unop " + in.Op.String())
			}
		case *ssa.BinOp:
			if _, isInt := e.get(s, in.Y).(IntV); (in.Op == token.QUO || in.Op == token.REM) && isInt { // the VM faults on a zero divisor
				d := e.get(s, in.Y).(IntV).t
				z := Eq(d, I(0))
				if z.isC() && z.b {
					return nil, []Out{{s.State, true, constBytes("division by zero")}}
				}
				if !z.isC() && e.feasible(s.State, z) {
					faulted := s.fork(z)
					s.State.pc = And(s.pc, Not(z))
					s.env[in] = binop(in.Op, e.get(s, in.X), e.get(s, in.Y))
					st := &St{State: s.State, blk: blk, ip: ip + 1, env: s.env}
					return []succ{{st, nil}}, []Out{{faulted, true, constBytes("division by zero")}}
				}
			}
			var bres Value
			if f := catchFault(func() { bres = binop(in.Op, e.get(s, in.X), e.get(s, in.Y)) }); f != "" {
				return nil, []Out{{s.State, true, constBytes(f)}}
			}
			s.env[in] = e.wrapNative(in.Type(), in.Op, bres)
		case *ssa.MakeMap:
			s.env[in] = MapV{e.alloc(s.State, MapObj{})}
		case *ssa.MapUpdate:
			m := e.get(s, in.Map).(MapV)
			obj := s.heap[m.id].(MapObj)
			k, v := e.get(s, in.Key), e.get(s, in.Value)
			idx := mapIndex(obj, k)
			if idx < 0 {
				obj = MapObj{append(append([]Value(nil), obj.keys...), k), append(append([]Value(nil), obj.vals...), v)}
			} else {
				vals := append([]Value(nil), obj.vals...)
				vals[idx] = v
				obj = MapObj{obj.keys, vals}
			}
			s.heap[m.id] = obj
		case *ssa.Lookup:
			if m, ok := e.get(s, in.X).(MapV); ok {
				obj := s.heap[m.id].(MapObj)
				idx := mapIndex(obj, e.get(s, in.Index))
				var v Value = zeroOrNull(in.X.Type().Underlying().(*types.Map).Elem())
				if idx >= 0 {
					v = obj.vals[idx]
				}
				if in.CommaOk {
					s.env[in] = TupleV{[]Value{v, BoolV{B(idx >= 0)}}}
				} else {
					s.env[in] = v
				}
				continue
			}
			panic("Lookup on non-map")
		case *ssa.Range:
			m := e.get(s, in.X).(MapV)
			obj := s.heap[m.id].(MapObj)
			items := make([]Value, len(obj.keys))
			for i := range obj.keys {
				items[i] = TupleV{[]Value{obj.keys[i], obj.vals[i]}}
			}
			s.env[in] = IterV{e.alloc(s.State, IterObj{items, -1})}
		case *ssa.Next:
			it := e.get(s, in.Iter).(IterV)
			o := s.heap[it.id].(IterObj)
			o.pos++
			s.heap[it.id] = o
			if o.pos < len(o.items) {
				kv := o.items[o.pos].(TupleV)
				s.env[in] = TupleV{[]Value{BoolV{tTrue}, kv.f[0], kv.f[1]}}
			} else {
				s.env[in] = TupleV{[]Value{BoolV{tFalse}, NullV{}, NullV{}}}
			}
		case *ssa.MakeClosure:
			var bind []Value
			for _, b := range in.Bindings {
				bind = append(bind, e.get(s, b))
			}
			s.env[in] = ClosureV{in.Fn.(*ssa.Function), bind}
		case *ssa.Defer:
			var dargs []Value
			for _, a := range in.Call.Args {
				dargs = append(dargs, e.get(s, a))
			}
			dv, _ := s.env[deferKey].(DeferV)
			s.env[deferKey] = DeferV{append(append([]deferred(nil), dv.list...), deferred{e.get(s, in.Call.Value), dargs})}
		case *ssa.RunDefers:
			dv, _ := s.env[deferKey].(DeferV)
			delete(s.env, deferKey)
			for i := len(dv.list) - 1; i >= 0; i-- {
				e.panicStack = append(e.panicStack, nil)
				outs := e.callValue(dv.list[i].fn, dv.list[i].args, s.State)
				e.panicStack = e.panicStack[:len(e.panicStack)-1]
				if len(outs) != 1 || outs[0].panicked {
					panic("deferred call on the normal path forks or panics: not modelled")
				}
				s.State = outs[0].State
			}
		case *ssa.Field:
			switch sv := e.get(s, in.X).(type) {
			case StructV:
				if in.Field >= len(sv.f) {
					return nil, []Out{{s.State, true, constBytes("field index out of range")}}
				}
				s.env[in] = sv.f[in.Field]
			case NullV:
				return nil, []Out{{s.State, true, constBytes("field of Null")}}
			default:
				panic(fmt.Sprintf("Field of %T", sv))
			}
		case *ssa.Extract:
			s.env[in] = e.get(s, in.Tuple).(TupleV).f[in.Index]
		case *ssa.MakeInterface:
			s.env[in] = e.get(s, in.X)
		case *ssa.ChangeType:
			s.env[in] = e.get(s, in.X)
		case *ssa.Convert:
			s.env[in] = e.wrapNative(in.Type(), token.MUL, e.get(s, in.X))
		case *ssa.Index:
			idx := e.get(s, in.Index).(IntV).t
			bs := e.get(s, in.X).(BytesV).b
			if !idx.isC() { // select over the bytes (index assumed in range; the harness code guarantees it)
				v := bs[len(bs)-1]
				for k := len(bs) - 2; k >= 0; k-- {
					v = Ite(Eq(idx, I(int64(k))), bs[k], v)
				}
				s.env[in] = IntV{v}
				continue
			}
			if int(idx.n.Int64()) >= len(bs) { // Go panic / VM fault
				return nil, []Out{{s.State, true, constBytes("index out of range")}}
			}
			s.env[in] = IntV{bs[idx.n.Int64()]}
		case *ssa.Slice:
			x := e.get(s, in.X)
			if p, ok := x.(PtrV); ok { // array -> slice
				arr := s.heap[p.id].(ArrObj)
				if isByteSlice(in.Type()) {
					bs := make([]*T, len(arr.e))
					for i, v := range arr.e {
						bs[i] = v.(IntV).t
					}
					lo, hi := 0, len(bs)
					if in.Low != nil {
						lo = cInt(e.get(s, in.Low))
					}
					if in.High != nil {
						hi = cInt(e.get(s, in.High))
					}
					if lo < 0 || hi > len(bs) || lo > hi {
						return nil, []Out{{s.State, true, constBytes("slice bounds out of range")}}
					}
					s.env[in] = BytesV{bs[lo:hi]}
				} else {
					s.env[in] = ListV{p.id}
				}
				continue
			}
			b := x.(BytesV)
			// symbolic bounds: enumerate the (few) feasible values and fork, so that shapes stay concrete
			for _, bound := range []ssa.Value{in.Low, in.High} {
				if bound == nil {
					continue
				}
				if t := e.get(s, bound).(IntV).t; !t.isC() {
					vals := e.concretize(s.State, t, 8)
					var next []succ
					for i, v := range vals {
						st := s
						if i < len(vals)-1 {
							st = &St{State: s.fork(Eq(t, I(v))), blk: blk, env: cloneEnv(s.env)}
						} else {
							s.State.pc = And(s.pc, Eq(t, I(v)))
						}
						st.env[bound] = IntV{I(v)}
						st.ip = ip // re-execute the slice with a concrete bound
						next = append(next, succ{st, nil})
					}
					e.stats.forks++
					return next, nil
				}
			}
			lo, hi := 0, len(b.b)
			if in.Low != nil {
				lo = int(e.get(s, in.Low).(IntV).t.n.Int64())
			}
			if in.High != nil {
				hi = int(e.get(s, in.High).(IntV).t.n.Int64())
			}
			if lo < 0 || hi > len(b.b) || lo > hi { // the VM's SUBSTR faults
				return nil, []Out{{s.State, true, constBytes("slice bounds out of range")}}
			}
			s.env[in] = BytesV{append([]*T(nil), b.b[lo:hi]...)}
		case *ssa.TypeAssert:
			outs := e.coerce(s, e.get(s, in.X), in.AssertedType)
			var next []succ
			for i, o := range outs {
				st := s
				if i < len(outs)-1 {
					st = &St{State: s.fork(o.cond), blk: blk, env: cloneEnv(s.env)}
				} else {
					s.State.pc = And(s.pc, o.cond)
				}
				st.env[in] = o.v
				st.ip = ip + 1
				next = append(next, succ{st, nil})
			}
			if len(outs) == 1 {
				continue
			}
			e.stats.forks++
			return next, nil
		case *ssa.Call:
			next, fin, cont := e.call(fn, s, in, ip)
			if !cont {
				return next, fin
			}
		case *ssa.Jump:
			return []succ{goTo(s, blk.Succs[0])}, nil
		case *ssa.If:
			c := e.get(s, in.Cond).(BoolV).t
			if c.isC() {
				if c.b {
					return []succ{goTo(s, blk.Succs[0])}, nil
				}
				return []succ{goTo(s, blk.Succs[1])}, nil
			}
			ft := e.feasible(s.State, c)
			ff := true
			if ft { // an infeasible side leaves the other one as the only continuation: no second query
				ff = e.feasible(s.State, Not(c))
			}
			switch {
			case ft && !ff:
				return []succ{goTo(s, blk.Succs[0])}, nil
			case !ft && ff:
				return []succ{goTo(s, blk.Succs[1])}, nil
			case !ft && !ff:
				return nil, nil
			}
			e.stats.forks++
			s2 := &St{State: s.fork(Not(c)), env: cloneEnv(s.env)}
			s.State.pc = And(s.pc, c)
			return []succ{goTo(s, blk.Succs[0]), goTo(s2, blk.Succs[1])}, nil
		case *ssa.Return:
			var v Value = UnitV{}
			if len(in.Results) == 1 {
				v = e.get(s, in.Results[0])
			} else if len(in.Results) > 1 {
				t := TupleV{}
				for _, r := range in.Results {
					t.f = append(t.f, e.get(s, r))
				}
				v = t
			}
			freeLocals(s)
			return nil, []Out{{s.State, false, v}}
		case *ssa.Panic:
			pv := e.get(s, in.X)
			freeLocals(s)
			return nil, []Out{{s.State, true, pv}}
		default:
			panic(fmt.Sprintf("unsupported instr %T: %s", in, in))
		}
	}
	panic("fell off block")
}

// wrapNative applies Go's fixed-width unsigned wrap-around in native-Go mode (package deploy). Operands are
// in range, so one correction step suffices for + and -; products and conversions are reduced modulo 2^w.
func (e *Engine) wrapNative(t types.Type, op token.Token, v Value) Value {
	iv, ok := v.(IntV)
	if !ok || !e.nativeMode || iv.t.isC() {
		return v
	}
	b, ok := t.Underlying().(*types.Basic)
	if !ok || b.Info()&types.IsUnsigned == 0 {
		return v
	}
	bits := map[types.BasicKind]uint{types.Uint8: 8, types.Uint16: 16, types.Uint32: 32, types.Uint64: 64, types.Uint: 64, types.Uintptr: 64}[b.Kind()]
	if bits == 0 {
		return v
	}
	m := IB(new(big.Int).Lsh(big.NewInt(1), bits))
	switch op {
	case token.ADD, token.SUB:
		return IntV{Ite(Lt(iv.t, I(0)), Add(iv.t, m), Ite(Le(m, iv.t), Sub(iv.t, m), iv.t))}
	case token.MUL:
		return IntV{app("mod", 'I', iv.t, m)}
	}
	return v
}

type vmFault struct{ msg string }

// irDesignation: one designateAsRole(NeoFSAlphabet, keys), in force from block act on.
type irDesignation struct {
	act  *T
	pubs [][]byte
}

func catchFault(f func()) (msg string) {
	defer func() {
		if r := recover(); r != nil {
			if vf, ok := r.(vmFault); ok {
				msg = vf.msg
				return
			}
			panic(r)
		}
	}()
	f()
	return ""
}

// serializedLen: bounds of the length of stackitem.Serialize(v) for a frozen value: one type byte per item,
// a one-byte count or length prefix (items and strings below 253), integers of 0..32 bytes.
func serializedLen(v Value) (lo, hi int) {
	switch x := v.(type) {
	case IntV:
		if x.t.isC() {
			n := len(constLE(x.t.n))
			return 2 + n, 2 + n
		}
		return 2, 2 + 32
	case BoolV:
		return 2, 2
	case NullV:
		return 1, 1
	case BytesV:
		if len(x.b) >= 253 {
			return 1 + 3 + len(x.b), 1 + 3 + len(x.b)
		}
		return 2 + len(x.b), 2 + len(x.b)
	case StructV:
		lo, hi = 2, 2
		for _, f := range x.f {
			l, h := serializedLen(f)
			lo, hi = lo+l, hi+h
		}
		return lo, hi
	case FrozenList:
		lo, hi = 2, 2
		for _, f := range x.e {
			l, h := serializedLen(f)
			lo, hi = lo+l, hi+h
		}
		return lo, hi
	}
	panic(fmt.Sprintf("serializedLen of %T", v))
}

func binop(op token.Token, x, y Value) Value {
	if _, ok := y.(NullV); ok {
		_, xn := x.(NullV)
		switch op {
		case token.EQL:
			return BoolV{B(xn)}
		case token.NEQ:
			return BoolV{B(!xn)}
		}
	}
	if _, ok := x.(NullV); ok { // nil == non-nil
		switch op {
		case token.EQL:
			return BoolV{tFalse}
		case token.NEQ:
			return BoolV{tTrue}
		}
	}
	// a serialization box against a byte string (or another box): equal only if the lengths can agree.
	// The box's content is not modelled byte by byte; its length range follows from the shape of the value
	// (NeoVM binary format). Anything this cannot decide is an engine limitation, not a guess.
	if op == token.EQL || op == token.NEQ {
		sx, xs := x.(SerV)
		sy, ys := y.(SerV)
		if xs != ys {
			box, other := sx, y
			if ys {
				box, other = sy, x
			}
			if ob, ok := other.(BytesV); ok {
				lo, hi := serializedLen(box.v)
				if len(ob.b) < lo || len(ob.b) > hi {
					return BoolV{B(op == token.NEQ)}
				}
				panic(fmt.Sprintf("comparison of a serialized item (%d..%d bytes) with a %d-byte string is not modelled", lo, hi, len(ob.b)))
			}
		}
	}
	if xb, ok := x.(BytesV); ok {
		yb := y.(BytesV)
		switch op {
		case token.EQL:
			return BoolV{bytesEq(xb.b, yb.b)}
		case token.NEQ:
			return BoolV{Not(bytesEq(xb.b, yb.b))}
		case token.ADD:
			return BytesV{append(append([]*T(nil), xb.b...), yb.b...)}
		}
	}
	if xb, ok := x.(BoolV); ok {
		yb := y.(BoolV)
		switch op {
		case token.EQL:
			return BoolV{Eq(xb.t, yb.t)}
		case token.NEQ:
			return BoolV{Not(Eq(xb.t, yb.t))}
		}
	}
	_, xn := x.(NullV)
	_, yn := y.(NullV)
	if xn || yn { // Null operand (an unset storage item asserted to int): comparisons are false, arithmetic faults
		switch op {
		case token.LSS, token.LEQ, token.GTR, token.GEQ:
			return BoolV{tFalse}
		}
		panic(vmFault{"invalid conversion: Null/Integer"})
	}
	a, b := x.(IntV).t, y.(IntV).t
	switch op {
	case token.ADD:
		return IntV{Add(a, b)}
	case token.SUB:
		return IntV{Sub(a, b)}
	case token.MUL:
		return IntV{Mul(a, b)}
	case token.QUO:
		return IntV{QuoT(a, b)}
	case token.REM:
		return IntV{ModT(a, b)}
	case token.EQL:
		return BoolV{Eq(a, b)}
	case token.NEQ:
		return BoolV{Not(Eq(a, b))}
	case token.LSS:
		return BoolV{Lt(a, b)}
	case token.LEQ:
		return BoolV{Le(a, b)}
	case token.GTR:
		return BoolV{Lt(b, a)}
	case token.GEQ:
		return BoolV{Le(b, a)}
	}
	panic("binop " + op.String())
}

type coerced struct {
	cond *T
	v    Value
}

// coerce models NeoVM's untyped type assertion using the static target type.
func (e *Engine) coerce(s *St, v Value, t types.Type) []coerced {
	one := func(v Value) []coerced { return []coerced{{tTrue, v}} }
	switch u := t.Underlying().(type) {
	case *types.Basic:
		if u.Info()&types.IsInteger != 0 {
			switch x := v.(type) {
			case IntV:
				return one(x)
			case NullV:
				// the VM's type assertion is a no-op: Null stays Null and faults in arithmetic later; harness code
				// (plain Go semantics are wanted there) reads it as 0
				if s.blk != nil && !inHarnessFile(s.blk.Parent()) && !e.nativeMode {
					return one(x)
				}
				return one(IntV{I(0)})
			case BytesV: // little-endian two's complement
				return one(IntV{bytesToInt(x.b)})
			}
		}
		if u.Info()&types.IsBoolean != 0 {
			switch x := v.(type) {
			case BoolV:
				return one(x)
			case IntV:
				return one(BoolV{Not(Eq(x.t, I(0)))})
			case NullV: // the VM converts Null to false
				return one(BoolV{tFalse})
			case BytesV: // any non-zero byte
				r := tFalse
				for _, b := range x.b {
					r = Or(r, Not(Eq(b, I(0))))
				}
				return one(BoolV{r})
			}
		}
		if u.Info()&types.IsString != 0 {
			if x, ok := v.(IntV); ok {
				return e.intToBytes(s, x.t)
			}
		}
	case *types.Slice:
		if isByteSlice(t) {
			if x, ok := v.(IntV); ok {
				return e.intToBytes(s, x.t)
			}
		}
		if eb, ok := u.Elem().Underlying().(*types.Basic); ok && eb.Info()&types.IsInteger != 0 { // []int from stored byte strings
			if x, ok := v.(ListV); ok {
				arr := s.heap[x.id].(ArrObj).e
				out := make([]Value, len(arr))
				changed := false
				for i, el := range arr {
					switch y := el.(type) {
					case BytesV:
						out[i] = IntV{bytesToInt(y.b)}
						changed = true
					case NullV:
						out[i] = IntV{I(0)}
						changed = true
					default:
						out[i] = el
					}
				}
				if changed {
					return one(ListV{e.alloc(s.State, ArrObj{out})})
				}
			}
		}
		if _, isStruct := u.Elem().Underlying().(*types.Struct); isStruct { // VM arrays of arrays -> []struct
			if x, ok := v.(ListV); ok {
				arr := s.heap[x.id].(ArrObj).e
				out := make([]Value, len(arr))
				for i, el := range arr {
					if l, ok := el.(ListV); ok {
						out[i] = StructV{append([]Value(nil), s.heap[l.id].(ArrObj).e...)}
					} else {
						out[i] = el
					}
				}
				return one(ListV{e.alloc(s.State, ArrObj{out})})
			}
		}
	case *types.Struct: // VM arrays asserted to struct types (deploy arguments, iterator items)
		if _, ok := v.(ListV); ok {
			return one(e.coerceDeep(s.State, v, t))
		}
	}
	return one(v)
}

func bytesToInt(b []*T) *T {
	if len(b) == 0 {
		return I(0)
	}
	r := I(0)
	mul := big.NewInt(1)
	for i := range b {
		r = Add(r, Mul(IB(mul), b[i]))
		mul = new(big.Int).Mul(mul, big.NewInt(256))
	}
	return Ite(Le(I(128), b[len(b)-1]), Sub(r, IB(mul)), r)
}

// intToBytes forks on the length class of the minimal LE two's complement encoding (0..4 bytes here).
func (e *Engine) intToBytes(s *St, x *T) []coerced {
	if x.isC() {
		return []coerced{{tTrue, BytesV{constLE(x.n)}}}
	}
	var out []coerced
	prevLo, prevHi := big.NewInt(0), big.NewInt(0) // class 0: x == 0
	out = append(out, coerced{Eq(x, I(0)), BytesV{nil}})
	// Length classes: 1..4 bytes always; 5..32 bytes (the largest NeoVM integer) only when the value can
	// leave the 4-byte range on this path — one extra query in the common case. Enumerating 1..4 only, as
	// this used to do, made a path with a larger symbolic integer vanish without a trace.
	maxK := 4
	small := new(big.Int).Lsh(big.NewInt(1), 31)
	if e.feasible(s.State, Not(And(Le(IB(new(big.Int).Neg(small)), x), Lt(x, IB(small))))) {
		maxK = 32
	}
	for k := 1; k <= maxK; k++ {
		hi := new(big.Int).Lsh(big.NewInt(1), uint(8*k-1)) // 2^(8k-1)
		lo := new(big.Int).Neg(hi)
		inClass := And(Le(IB(lo), x), Lt(x, IB(hi)))
		var notPrev *T
		if k == 1 {
			notPrev = Not(Eq(x, I(0)))
		} else {
			notPrev = Not(And(Le(IB(prevLo), x), Lt(x, IB(prevHi))))
		}
		cond := And(inClass, notPrev)
		// linear encoding: fresh bytes b with x = LE-two's-complement(b); no div/mod reaches the solver
		e.fresh++
		bs := make([]*T, k)
		for i := 0; i < k; i++ {
			bs[i] = VarByte(fmt.Sprintf("enc%d_%d", e.fresh, i))
		}
		cond = And(cond, Eq(x, bytesToInt(bs)))
		out = append(out, coerced{cond, BytesV{bs}})
		prevLo, prevHi = lo, hi
	}
	var feas []coerced
	for _, o := range out {
		if e.feasible(s.State, o.cond) {
			feas = append(feas, o)
		}
	}
	return feas
}

func constLE(n *big.Int) []*T {
	if n.Sign() == 0 {
		return nil
	}
	// minimal two's complement little endian
	k := 1
	for {
		hi := new(big.Int).Lsh(big.NewInt(1), uint(8*k-1))
		lo := new(big.Int).Neg(hi)
		if n.Cmp(lo) >= 0 && n.Cmp(hi) < 0 {
			break
		}
		k++
	}
	mod := new(big.Int).Lsh(big.NewInt(1), uint(8*k))
	u := new(big.Int).Mod(new(big.Int).Add(n, mod), mod)
	bs := make([]*T, k)
	for i := 0; i < k; i++ {
		b := new(big.Int).And(new(big.Int).Rsh(u, uint(8*i)), big.NewInt(255))
		bs[i] = IB(b)
	}
	return bs
}

func shortName(fn *ssa.Function) string {
	n := fn.String()
	return n[strings.LastIndex(n, ".")+1:]
}

// coerceDeep turns VM arrays into Go structs / typed slices following the static type.
func (e *Engine) coerceDeep(s *State, v Value, t types.Type) Value {
	l, ok := v.(ListV)
	if !ok {
		return v
	}
	elems := s.heap[l.id].(ArrObj).e
	switch u := t.Underlying().(type) {
	case *types.Struct:
		out := make([]Value, len(elems))
		for i := range elems {
			if i < u.NumFields() {
				out[i] = e.coerceDeep(s, elems[i], u.Field(i).Type())
			} else {
				out[i] = elems[i]
			}
		}
		return StructV{out}
	case *types.Slice:
		if isByteSlice(t) {
			return v
		}
		out := make([]Value, len(elems))
		for i := range elems {
			out[i] = e.coerceDeep(s, elems[i], u.Elem())
		}
		return ListV{e.alloc(s, ArrObj{out})}
	}
	return v
}

func zeroOrNullT(t types.Type) Value { return zeroOrNull(t) }

// mapIndex: position of the key in an insertion-ordered map (keys must compare statically in the spike).
func mapIndex(m MapObj, k Value) int {
	for i, x := range m.keys {
		switch a := x.(type) {
		case BytesV:
			if b, ok := k.(BytesV); ok {
				eq := bytesEq(a.b, b.b)
				if !eq.isC() {
					panic("spike: symbolic map key comparison")
				}
				if eq.b {
					return i
				}
			}
		case IntV:
			if b, ok := k.(IntV); ok {
				eq := Eq(a.t, b.t)
				if !eq.isC() {
					panic("spike: symbolic map key comparison")
				}
				if eq.b {
					return i
				}
			}
		}
	}
	return -1
}

// concretize enumerates the feasible values of an integer term under the path condition (at most limit).
func (e *Engine) concretize(s *State, t *T, limit int) []int64 {
	var vals []int64
	blocked := tTrue
	for {
		r, m := e.solver.check(s.pc, []*T{blocked}, []*T{t})
		if r != "sat" {
			return vals
		}
		name := fmt.Sprintf("n%d", t.id)
		if t.op == "var" {
			name = t.name
		}
		v, ok := new(big.Int).SetString(m[name], 10)
		if !ok {
			panic("concretize: no value for " + name)
		}
		vals = append(vals, v.Int64())
		if len(vals) > limit {
			panic(fmt.Sprintf("spike: more than %d feasible values for a slice bound (needs a shape hint)", limit))
		}
		blocked = And(blocked, Not(Eq(t, I(v.Int64()))))
	}
}

func shapeStr(v Value) string {
	switch x := v.(type) {
	case BytesV:
		return fmt.Sprintf("bytes[%d]", len(x.b))
	case StructV:
		s := "struct{"
		for _, f := range x.f {
			s += shapeStr(f) + ","
		}
		return s + "}"
	case TupleV:
		s := "tuple("
		for _, f := range x.f {
			s += shapeStr(f) + ","
		}
		return s + ")"
	case ListV:
		return fmt.Sprintf("list#%d", x.id)
	}
	return fmt.Sprintf("%T", v)
}
