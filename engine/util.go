package main

import (
	"crypto/elliptic"
	"encoding/json"
	"os"
	"time"

	"github.com/nspcc-dev/neo-go/pkg/crypto/hash"
	"github.com/nspcc-dev/neo-go/pkg/crypto/keys"
	"github.com/nspcc-dev/neo-go/pkg/util"
	"gopkg.in/yaml.v3"
)

func hashScript(script []byte) util.Uint160 { return hash.Hash160(script) }

func jsonMarshal(v any) ([]byte, error) { return json.Marshal(v) }

func uint160BE(b []byte) (util.Uint160, error) { return util.Uint160DecodeBytesBE(b) }

func nowMs() int64 { return time.Now().UnixNano() / 1e6 }

// digest: real digest on concrete input, injective uninterpreted function otherwise.
func (e *Engine) digest(fn string, in BytesV) BytesV {
	in0, ok := isConstBytes(in)
	n := map[string]int{"sha256": 32, "ripemd160": 20}[fn]
	if !ok {
		return e.uf(fn, in.b, n, nil)
	}
	var d []byte
	if fn == "ripemd160" {
		d = hash.RipeMD160([]byte(in0)).BytesBE()
	} else {
		d = hash.Sha256([]byte(in0)).BytesBE()
	}
	return e.uf(fn, in.b, n, d)
}

// realVerify: concrete ECDSA verification (replay mode only).
func (e *Engine) realVerify(msg, pub Value, sig BytesV) bool {
	m, ok1 := isConstBytes(msg.(BytesV))
	p, ok2 := isConstBytes(pub.(BytesV))
	sg, ok3 := isConstBytes(sig)
	if !ok1 || !ok2 || !ok3 {
		return false
	}
	k, err := keys.NewPublicKeyFromBytes([]byte(p), elliptic.P256())
	if err != nil {
		return false
	}
	return k.Verify([]byte(sg), hash.Sha256([]byte(m)).BytesBE())
}

type contractConfig struct {
	Name        string            `yaml:"name"`
	SafeMethods []string          `yaml:"safemethods"`
	Overloads   map[string]string `yaml:"overloads"`
}

var cfgCache = map[string]*contractConfig{}

func (w *World) config(contract string) *contractConfig {
	if c, ok := cfgCache[contract]; ok {
		return c
	}
	c := &contractConfig{}
	data, err := os.ReadFile(w.contractDir(contract) + "/config.yml")
	if err == nil {
		if err := yaml.Unmarshal(data, c); err != nil {
			panic("config.yml of " + contract + ": " + err.Error())
		}
	}
	cfgCache[contract] = c
	return c
}

// isSafe: is the method listed under safemethods in the contract's config.yml (working tree)?
func (e *Engine) isSafe(contract, method string) bool {
	for _, m := range e.world.config(contract).SafeMethods {
		if m == method {
			return true
		}
	}
	return false
}
