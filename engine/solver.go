package main

import (
	"bufio"
	"fmt"
	"io"
	"os"
	"os/exec"
	"sort"
	"strings"
	"time"
)

// Solver: a portfolio of persistent SMT processes. The primary (z3 5.1.0, `z3-new -in`) gets every
// query; a query it cannot decide within its time cap is retried on the secondaries (cvc5 1.0, z3 4.8.12),
// which are started lazily and fed the whole base log first. Every query is wrapped in push/pop; shared
// sub-terms are named constants asserted once at the base level.
type proc struct {
	name string
	cmd  *exec.Cmd
	in   io.WriteCloser
	out  *bufio.Reader
	fed  int // bytes of the base log already sent
	dead bool
}

type Solver struct {
	procs   []*proc
	time    time.Duration
	count   int
	unknown int
	errors  []string
	baseLog strings.Builder // declarations, definitions and permanent assertions
	done    map[int]bool
	base    map[int]bool // terms asserted permanently (byte ranges)
	capMs   int
	cross   bool // re-discharge assertion queries on a second solver
	disagreements int
	crossChecked  int
	trace   io.Writer
}

var solverSpecs = [][]string{
	{"z3-new", "-in"},
	{"cvc5", "--incremental", "--lang=smt2", "--produce-models"},
	{"z3", "-in"},
}

func newSolver() *Solver {
	s := &Solver{done: map[int]bool{}, base: map[int]bool{}, capMs: 60000}
	if v := os.Getenv("NEOSYM_SOLVER_TRACE"); v != "" {
		f, _ := os.Create(v)
		s.trace = f
	}
	s.procs = []*proc{s.start(0)}
	return s
}

func (s *Solver) start(i int) *proc {
	spec := solverSpecs[i]
	cmd := exec.Command(spec[0], spec[1:]...)
	in, _ := cmd.StdinPipe()
	out, _ := cmd.StdoutPipe()
	cmd.Stderr = cmd.Stdout
	p := &proc{name: spec[0], cmd: cmd, in: in, out: bufio.NewReaderSize(out, 1<<20)}
	if err := cmd.Start(); err != nil {
		p.dead = true
		return p
	}
	pre := "(set-option :produce-models true)\n"
	if spec[0] == "cvc5" {
		pre += fmt.Sprintf("(set-option :tlimit-per %d)\n", s.capMs)
		pre += "(set-logic ALL)\n"
	} else {
		pre += fmt.Sprintf("(set-option :timeout %d)\n", s.capMs)
	}
	s.send(p, pre)
	return p
}

func (s *Solver) close() {
	for _, p := range s.procs {
		if p != nil && !p.dead {
			p.in.Close()
			p.cmd.Process.Kill()
			p.cmd.Wait()
		}
	}
}

func (s *Solver) send(p *proc, text string) []string {
	if p.dead {
		return []string{"(error \"solver not running\")"}
	}
	if s.trace != nil && p == s.procs[0] {
		io.WriteString(s.trace, text+"\n")
	}
	io.WriteString(p.in, text+"\n(echo \"<<END>>\")\n")
	var lines []string
	for {
		l, err := p.out.ReadString('\n')
		if err != nil {
			p.dead = true
			return append(lines, "(error \"solver died\")")
		}
		l = strings.TrimSpace(l)
		if l == "<<END>>" || l == "\"<<END>>\"" {
			break
		}
		if l != "" {
			lines = append(lines, l)
		}
	}
	return lines
}

// sync brings a process up to date with the base log.
func (s *Solver) sync(p *proc) {
	log := s.baseLog.String()
	if p.fed < len(log) {
		ls := s.send(p, log[p.fed:])
		for _, l := range ls {
			if strings.HasPrefix(l, "(error") {
				s.errors = append(s.errors, p.name+": "+l)
			}
		}
		p.fed = len(log)
	}
}

// assertBase asserts a constraint permanently.
func (s *Solver) assertBase(c *T) {
	if s.base[c.id] {
		return
	}
	var sb strings.Builder
	n := emit(&sb, s.done, c)
	fmt.Fprintf(&sb, "(assert %s)\n", n)
	s.base[c.id] = true
	s.baseLog.WriteString(sb.String())
}

func parseVerdict(lines []string) string {
	res := "error"
	for _, l := range lines {
		if strings.HasPrefix(l, "(error") {
			return "error: " + l
		}
		if l == "sat" || l == "unsat" || l == "unknown" {
			res = l
		}
	}
	return res
}

func (s *Solver) ask(p *proc, query string, names []string) (string, map[string]string) {
	s.sync(p)
	lines := s.send(p, query)
	res := parseVerdict(lines)
	model := map[string]string{}
	if res == "sat" && len(names) > 0 {
		// ask in chunks: very long get-value lines are slow to parse
		for i := 0; i < len(names); i += 200 {
			j := i + 200
			if j > len(names) {
				j = len(names)
			}
			ls := s.send(p, "(get-value ("+strings.Join(names[i:j], " ")+"))")
			parseModel(strings.Join(ls, " "), model)
		}
	}
	s.send(p, "(pop)")
	return res, model
}

func parseModel(txt string, model map[string]string) {
	toks := strings.Fields(strings.NewReplacer("(", " ( ", ")", " ) ").Replace(txt))
	// pattern: ( name value ) where value may be ( - n )
	for i := 0; i+2 < len(toks); i++ {
		if toks[i] == "(" && toks[i+1] != "(" && toks[i+1] != ")" {
			name := strings.Trim(toks[i+1], "|")
			if toks[i+2] == "(" && i+4 < len(toks) && toks[i+3] == "-" {
				model[name] = "-" + toks[i+4]
				i += 5
			} else if toks[i+2] != "(" && toks[i+2] != ")" {
				model[name] = toks[i+2]
				i += 2
			}
		}
	}
}

// check asserts the terms and returns sat/unsat/unknown/error plus values of the requested vars.
// important: the query is an assertion/cover query (cross-checked in thorough tier), not a feasibility probe.
func (s *Solver) check(cs []*T, want []*T) (string, map[string]string) {
	return s.checkX(cs, want, false)
}

func (s *Solver) checkX(cs []*T, want []*T, important bool) (string, map[string]string) {
	s.count++
	var defs, q strings.Builder
	q.WriteString("(push)\n")
	for _, c := range cs {
		if s.base[c.id] {
			continue
		}
		n := emit(&defs, s.done, c)
		fmt.Fprintf(&q, "(assert %s)\n", n)
	}
	var names []string
	for _, w := range want {
		names = append(names, emit(&defs, s.done, w))
	}
	s.baseLog.WriteString(defs.String())
	q.WriteString("(check-sat)\n")
	t0 := time.Now()
	defer func() { s.time += time.Since(t0) }()
	res, model := s.ask(s.procs[0], q.String(), names)
	if res == "sat" || res == "unsat" {
		if important && s.cross {
			r2, _ := s.ask(s.secondary(1), q.String(), nil)
			if r2 == "sat" || r2 == "unsat" {
				s.crossChecked++
				if r2 != res {
					s.disagreements++
					s.errors = append(s.errors, fmt.Sprintf("solver disagreement: %s says %s, %s says %s", s.procs[0].name, res, s.procs[1].name, r2))
					return "error: solver disagreement", nil
				}
			}
		}
		return res, model
	}
	if s.procs[0].dead { // restart the primary for later queries
		s.procs[0] = s.start(0)
	}
	// portfolio: retry on the other solvers
	for i := 1; i < len(solverSpecs); i++ {
		p := s.secondary(i)
		if p.dead {
			continue
		}
		r2, m2 := s.ask(p, q.String(), names)
		if r2 == "sat" || r2 == "unsat" {
			return r2, m2
		}
		if p.dead {
			s.procs[i] = nil
		}
	}
	s.unknown++
	return res, nil
}

func (s *Solver) secondary(i int) *proc {
	for len(s.procs) <= i {
		s.procs = append(s.procs, nil)
	}
	if s.procs[i] == nil {
		s.procs[i] = s.start(i)
	}
	return s.procs[i]
}

func fmtModel(m map[string]string) string {
	keys := make([]string, 0, len(m))
	for k := range m {
		keys = append(keys, k)
	}
	sort.Strings(keys)
	var sb strings.Builder
	for _, k := range keys {
		fmt.Fprintf(&sb, " %s=%s", k, m[k])
	}
	return sb.String()
}
