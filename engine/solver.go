package main

import (
	"bufio"
	"fmt"
	"io"
	"math/big"
	"os"
	"os/exec"
	"sort"
	"strings"
	"time"
)

// Solver: a portfolio of persistent SMT processes.
//
// Primary (z3 5.1.0, `z3-new -in`): the conjuncts of the current path condition are kept asserted on a
// stack of push levels; a query pops back to the common prefix of the previous path condition and pushes
// only what is new, so consecutive queries (which mostly come from neighbouring program points of one
// path) cost a few assertions each. Shared sub-terms are named constants defined in the scope that first
// needs them; variables carry their range (bytes 0..255, digits, uint64 …) with their declaration.
//
// Secondaries (cvc5 1.0, z3 4.8.12): started lazily; get self-contained queries. Used when the primary
// answers unknown/timeout (portfolio) and, in the thorough tier, to re-discharge assertion queries.
type proc struct {
	name string
	cmd  *exec.Cmd
	in   io.WriteCloser
	out  *bufio.Reader
	dead bool
}

type level struct {
	term    *T
	defined []int
}

type Solver struct {
	procs         []*proc
	time          time.Duration
	count         int
	unknown       int
	errors        []string
	axioms        []*T // permanent assertions (uninterpreted-function axioms, environment assumptions)
	axiomSet      map[int]bool
	axiomsSent    int
	stack         []level
	local         map[int]bool // nodes/vars currently defined on the primary
	capMs         int
	cross         bool // re-discharge assertion queries on a second solver
	disagreements int
	crossChecked  int
	trace         io.Writer
	bytesSent     int64
}

var solverSpecs = [][]string{
	{"z3-new", "-in"},
	{"cvc5", "--incremental", "--lang=smt2", "--produce-models"},
	{"z3", "-in"},
}

func newSolver() *Solver {
	s := &Solver{axiomSet: map[int]bool{}, local: map[int]bool{}, capMs: 60000}
	if v := os.Getenv("NEOSYM_SOLVER_TRACE"); v != "" {
		f, _ := os.Create(v)
		s.trace = f
	}
	s.procs = []*proc{s.start(0)}
	return s
}

func (s *Solver) start(i int) *proc {
	spec := solverSpecs[i]
	cmd := exec.Command(spec[0], spec[1:]...)
	in, _ := cmd.StdinPipe()
	out, _ := cmd.StdoutPipe()
	cmd.Stderr = cmd.Stdout
	p := &proc{name: spec[0], cmd: cmd, in: in, out: bufio.NewReaderSize(out, 1<<20)}
	if err := cmd.Start(); err != nil {
		p.dead = true
		return p
	}
	pre := "(set-option :produce-models true)\n"
	capMs := s.capMs
	if i == 0 { // the primary gives up early: the portfolio takes over
		capMs = s.capMs / 4
	}
	if spec[0] == "cvc5" {
		pre += fmt.Sprintf("(set-option :tlimit-per %d)\n", capMs)
		pre += "(set-logic ALL)\n"
	} else {
		pre += fmt.Sprintf("(set-option :timeout %d)\n", capMs)
	}
	s.send(p, pre)
	return p
}

func (s *Solver) close() {
	for _, p := range s.procs {
		if p != nil && !p.dead {
			p.in.Close()
			p.cmd.Process.Kill()
			p.cmd.Wait()
		}
	}
}

func (s *Solver) send(p *proc, text string) []string {
	if p.dead {
		return []string{"(error \"solver not running\")"}
	}
	if s.trace != nil && (len(s.procs) == 0 || p == s.procs[0]) {
		io.WriteString(s.trace, text+"\n")
	}
	s.bytesSent += int64(len(text))
	io.WriteString(p.in, text+"\n(echo \"<<END>>\")\n")
	var lines []string
	for {
		l, err := p.out.ReadString('\n')
		if err != nil {
			p.dead = true
			return append(lines, "(error \"solver died\")")
		}
		l = strings.TrimSpace(l)
		if l == "<<END>>" || l == "\"<<END>>\"" {
			break
		}
		if l != "" {
			lines = append(lines, l)
		}
	}
	return lines
}

// assertBase adds a permanent assertion (asserted at level 0 of the primary before the next query).
func (s *Solver) assertBase(c *T) {
	if s.axiomSet[c.id] || (c.isC() && c.b) {
		return
	}
	s.axiomSet[c.id] = true
	s.axioms = append(s.axioms, c)
}

func parseVerdict(lines []string) string {
	res := "error"
	for _, l := range lines {
		if strings.HasPrefix(l, "(error") {
			return "error: " + l
		}
		if l == "sat" || l == "unsat" || l == "unknown" {
			res = l
		}
	}
	return res
}

func parseModel(txt string, model map[string]string) {
	toks := strings.Fields(strings.NewReplacer("(", " ( ", ")", " ) ").Replace(txt))
	// pattern: ( name value ) where value may be ( - n )
	for i := 0; i+2 < len(toks); i++ {
		if toks[i] == "(" && toks[i+1] != "(" && toks[i+1] != ")" {
			name := strings.Trim(toks[i+1], "|")
			if toks[i+2] == "(" && i+4 < len(toks) && toks[i+3] == "-" {
				model[name] = "-" + toks[i+4]
				i += 5
			} else if toks[i+2] != "(" && toks[i+2] != ")" {
				model[name] = toks[i+2]
				i += 2
			}
		}
	}
}

// define emits (into q) declarations/definitions for everything below t that is not yet defined on the
// primary and records what it defined.
func (s *Solver) define(q *strings.Builder, defined *[]int, local map[int]bool, t *T) string {
	switch t.op {
	case "const":
		if t.sort == 'B' {
			if t.b {
				return "true"
			}
			return "false"
		}
		if t.n.Sign() < 0 {
			return "(- " + new(big.Int).Neg(t.n).String() + ")"
		}
		return t.n.String()
	case "var":
		nm := "|" + t.name + "|"
		if !local[t.id] {
			local[t.id] = true
			*defined = append(*defined, t.id)
			fmt.Fprintf(q, "(declare-const %s %s)\n", nm, sortName(t.sort))
			if t.lo != nil {
				fmt.Fprintf(q, "(assert (<= %s %s))\n", t.lo.String(), nm)
			}
			if t.hi != nil {
				fmt.Fprintf(q, "(assert (<= %s %s))\n", nm, t.hi.String())
			}
		}
		return nm
	}
	name := fmt.Sprintf("n%d", t.id)
	if local[t.id] {
		return name
	}
	args := make([]string, len(t.args))
	for i, a := range t.args {
		args[i] = s.define(q, defined, local, a)
	}
	local[t.id] = true
	*defined = append(*defined, t.id)
	fmt.Fprintf(q, "(declare-const %s %s)\n(assert (= %s (%s %s)))\n", name, sortName(t.sort), name, smtOp(t.op), strings.Join(args, " "))
	return name
}

func (s *Solver) popTo(q *strings.Builder, k int) {
	for i := len(s.stack) - 1; i >= k; i-- {
		q.WriteString("(pop)\n")
		for _, id := range s.stack[i].defined {
			delete(s.local, id)
		}
	}
	s.stack = s.stack[:k]
}

// check: is pc ∧ extras satisfiable? Returns sat/unsat/unknown/error plus values of the requested vars.
func (s *Solver) check(pc *T, extras []*T, want []*T) (string, map[string]string) {
	return s.checkX(pc, extras, want, false)
}

func (s *Solver) checkX(pc *T, extras []*T, want []*T, important bool) (string, map[string]string) {
	s.count++
	t0 := time.Now()
	defer func() { s.time += time.Since(t0) }()
	p := s.procs[0]
	var q strings.Builder
	if s.axiomsSent < len(s.axioms) { // new permanent assertions go to level 0
		s.popTo(&q, 0)
		var def []int
		for _, a := range s.axioms[s.axiomsSent:] {
			n := s.define(&q, &def, s.local, a)
			fmt.Fprintf(&q, "(assert %s)\n", n)
		}
		s.axiomsSent = len(s.axioms)
	}
	sp := spine(pc)
	k := 0
	for k < len(s.stack) && k < len(sp) && s.stack[k].term == sp[k] {
		k++
	}
	s.popTo(&q, k)
	for _, c := range sp[k:] {
		q.WriteString("(push)\n")
		var def []int
		n := s.define(&q, &def, s.local, c)
		fmt.Fprintf(&q, "(assert %s)\n", n)
		s.stack = append(s.stack, level{c, def})
	}
	q.WriteString("(push)\n")
	var qdef []int
	for _, c := range extras {
		n := s.define(&q, &qdef, s.local, c)
		fmt.Fprintf(&q, "(assert %s)\n", n)
	}
	var names []string
	for _, w := range want {
		names = append(names, s.define(&q, &qdef, s.local, w))
	}
	q.WriteString("(check-sat)\n")
	lines := s.send(p, q.String())
	res := parseVerdict(lines)
	model := map[string]string{}
	if res == "sat" && len(names) > 0 {
		for i := 0; i < len(names); i += 200 {
			j := i + 200
			if j > len(names) {
				j = len(names)
			}
			ls := s.send(p, "(get-value ("+strings.Join(names[i:j], " ")+"))")
			parseModel(strings.Join(ls, " "), model)
		}
	}
	s.send(p, "(pop)")
	for _, id := range qdef {
		delete(s.local, id)
	}
	if p.dead { // restart the primary for later queries
		s.procs[0] = s.start(0)
		s.stack, s.local, s.axiomsSent = nil, map[int]bool{}, 0
	}
	if res == "sat" || res == "unsat" {
		if important && s.cross {
			r2, _ := s.askStandalone(s.secondary(1), pc, extras, nil)
			if r2 == "sat" || r2 == "unsat" {
				s.crossChecked++
				if r2 != res {
					s.disagreements++
					s.errors = append(s.errors, fmt.Sprintf("solver disagreement: %s says %s, %s says %s", s.procs[0].name, res, s.procs[1].name, r2))
					return "error: solver disagreement", nil
				}
			}
		}
		return res, model
	}
	// portfolio: retry on the other solvers
	for i := 1; i < len(solverSpecs); i++ {
		sec := s.secondary(i)
		if sec.dead {
			continue
		}
		r2, m2 := s.askStandalone(sec, pc, extras, want)
		if r2 == "sat" || r2 == "unsat" {
			return r2, m2
		}
		if sec.dead {
			s.procs[i] = nil
		}
	}
	s.unknown++
	return res, nil
}

// askStandalone sends a self-contained query (everything inside one push scope).
func (s *Solver) askStandalone(p *proc, pc *T, extras []*T, want []*T) (string, map[string]string) {
	var q strings.Builder
	local := map[int]bool{}
	var def []int
	q.WriteString("(push)\n")
	for _, a := range s.axioms {
		fmt.Fprintf(&q, "(assert %s)\n", s.define(&q, &def, local, a))
	}
	fmt.Fprintf(&q, "(assert %s)\n", s.define(&q, &def, local, pc))
	for _, c := range extras {
		fmt.Fprintf(&q, "(assert %s)\n", s.define(&q, &def, local, c))
	}
	var names []string
	for _, w := range want {
		names = append(names, s.define(&q, &def, local, w))
	}
	q.WriteString("(check-sat)\n")
	lines := s.send(p, q.String())
	res := parseVerdict(lines)
	model := map[string]string{}
	if res == "sat" && len(names) > 0 {
		for i := 0; i < len(names); i += 200 {
			j := i + 200
			if j > len(names) {
				j = len(names)
			}
			ls := s.send(p, "(get-value ("+strings.Join(names[i:j], " ")+"))")
			parseModel(strings.Join(ls, " "), model)
		}
	}
	s.send(p, "(pop)")
	return res, model
}

func (s *Solver) secondary(i int) *proc {
	for len(s.procs) <= i {
		s.procs = append(s.procs, nil)
	}
	if s.procs[i] == nil {
		s.procs[i] = s.start(i)
	}
	return s.procs[i]
}

func fmtModel(m map[string]string) string {
	keys := make([]string, 0, len(m))
	for k := range m {
		keys = append(keys, k)
	}
	sort.Strings(keys)
	var sb strings.Builder
	for _, k := range keys {
		fmt.Fprintf(&sb, " %s=%s", k, m[k])
	}
	return sb.String()
}
