package main

// One job = one harness function with one parameter tuple: symbolic exploration, then replay of every
// counterexample and of one witness per cover point on the real VM. The result goes to stdout as JSON.

import (
	"math/big"
	"encoding/json"
	"fmt"
	"go/types"
	"os"
	"path/filepath"
	"runtime/debug"
	"sort"
	"strings"
	"time"

	"golang.org/x/tools/go/packages"
	"golang.org/x/tools/go/ssa"
	"golang.org/x/tools/go/ssa/ssautil"
)

var repoRoot = "/repo"
var verifRoot = "/verif"

type Obligation struct {
	ID      string              `json:"id"`
	Kind    string              `json:"kind"` // assert | known | cover
	Verdict string              `json:"verdict"`
	Paths   int                 `json:"path_queries"`
	Unknown int                 `json:"unknown,omitempty"`
	Ms      int64               `json:"ms"`
	Model   map[string]string   `json:"witness,omitempty"`
	Models  []map[string]string `json:"counterexamples,omitempty"`
	Replay  string              `json:"replay,omitempty"` // reproduced | not-reproduced | agrees | diverges | error:…
	Trace   []string            `json:"replay_trace,omitempty"`
	Notes   []string            `json:"notes,omitempty"`
	CexUsed map[string]string   `json:"counterexample_replayed,omitempty"`
	FullModel map[string]string `json:"full_model,omitempty"` // untrimmed witness (tier "witness" only)
}

type JobResult struct {
	Harness      string         `json:"harness"`
	Pkg          string         `json:"pkg"`
	Prop         string         `json:"property"`
	Params       []int          `json:"params"`
	Obligations  []*Obligation  `json:"obligations"`
	Functions    map[string]int `json:"functions_encoded"`
	Inconclusive []string       `json:"inconclusive,omitempty"`
	Stats        map[string]int `json:"stats"`
	SolverMs     int64          `json:"solver_ms"`
	WallMs       int64          `json:"wall_ms"`
	LoadMs       int64          `json:"load_ms"`
	Replays      int            `json:"replays"`
	ReplaysAgree int            `json:"replays_agree"`
	Unwind       int            `json:"unwind_limit"`
	UnwindHit    []string       `json:"unwind_hit,omitempty"`
	SolverErrors []string       `json:"solver_errors,omitempty"`
	CrossChecked int            `json:"cross_checked"`
	Disagree     int            `json:"cross_solver_disagreements"`
}

type loaded struct {
	prog   *ssa.Program
	pkg    *ssa.Package
	linked map[string]*ssa.Package
}

// moduleDir: the engine module replaces neofs-contract by /repo; for experiments on a scratch copy
// (NEOSYM_REPO) a temporary module with a different replace target is generated.
func moduleDir() (string, func()) {
	eng := filepath.Join(verifRoot, "engine")
	if repoRoot == "/repo" {
		return eng, func() {}
	}
	d, err := os.MkdirTemp("", "neosym-mod")
	if err != nil {
		panic(err)
	}
	gm, _ := os.ReadFile(filepath.Join(eng, "go.mod"))
	gm = []byte(strings.Replace(string(gm), "=> /repo", "=> "+repoRoot, 1))
	os.WriteFile(filepath.Join(d, "go.mod"), gm, 0644)
	gs, _ := os.ReadFile(filepath.Join(eng, "go.sum"))
	os.WriteFile(filepath.Join(d, "go.sum"), gs, 0644)
	os.WriteFile(filepath.Join(d, "doc.go"), []byte("package neosymscratch\n"), 0644)
	for _, p := range probeContracts { // the probe contracts are packages of the engine module
		os.MkdirAll(filepath.Join(d, "probe", p), 0755)
		for _, f := range []string{"contract.go", "config.yml"} {
			data, _ := os.ReadFile(filepath.Join(eng, "probe", p, f))
			os.WriteFile(filepath.Join(d, "probe", p, f), data, 0644)
		}
	}
	return d, func() { os.RemoveAll(d) }
}

func pkgDir(pkg string) string {
	if pkg == "deploy" || pkg == "common" {
		return filepath.Join(repoRoot, pkg)
	}
	return filepath.Join(repoRoot, "contracts", pkg)
}

func pkgPath(pkg string) string {
	if pkg == "deploy" || pkg == "common" {
		return "github.com/nspcc-dev/neofs-contract/" + pkg
	}
	return "github.com/nspcc-dev/neofs-contract/contracts/" + pkg
}

// load builds SSA for the linked contracts from the working tree, with the harness files overlaid in-package.
func load(h *Harness) *loaded {
	overlay := map[string][]byte{}
	hdir := filepath.Join(verifRoot, "harness", h.Pkg)
	files, _ := filepath.Glob(filepath.Join(hdir, "*.go"))
	if len(files) == 0 {
		panic("no harness files in " + hdir)
	}
	pkgName := ""
	for _, f := range files {
		src, err := os.ReadFile(f)
		if err != nil {
			panic(err)
		}
		overlay[filepath.Join(pkgDir(h.Pkg), "zz_verif_"+filepath.Base(f))] = src
		for _, l := range strings.Split(string(src), "\n") {
			if strings.HasPrefix(l, "package ") {
				pkgName = strings.TrimSpace(l[8:])
				break
			}
		}
	}
	overlay[filepath.Join(pkgDir(h.Pkg), "zz_verif_prelude.go")] = []byte("package " + pkgName + "\n" + preludeText)
	patterns := []string{pkgPath(h.Pkg)}
	for _, n := range h.Link {
		if p := pkgPath(n); p != patterns[0] {
			if _, probe := probeContracts[n]; probe {
				continue
			}
			patterns = append(patterns, p)
		}
	}
	for n := range probeContracts {
		for _, l := range h.Link {
			if l == n {
				patterns = append(patterns, "neosym/probe/"+probeContracts[n])
			}
		}
	}
	dir, cleanup := moduleDir()
	defer cleanup()
	cfg := &packages.Config{Mode: packages.LoadAllSyntax, Dir: dir, Overlay: overlay,
		Env: append(os.Environ(), "GOFLAGS=-mod=mod", "GOPROXY=off", "GOSUMDB=off", "GOTOOLCHAIN=local")}
	pkgs, err := packages.Load(cfg, patterns...)
	if err != nil {
		panic(fmt.Sprint("load: ", err))
	}
	var errs []string
	packages.Visit(pkgs, nil, func(p *packages.Package) {
		for _, e := range p.Errors {
			errs = append(errs, e.Error())
		}
	})
	if len(errs) > 0 {
		panic("load: " + strings.Join(errs, "; "))
	}
	prog, spkgs := ssautil.AllPackages(pkgs, ssa.InstantiateGenerics)
	prog.Build()
	l := &loaded{prog: prog, linked: map[string]*ssa.Package{}}
	for _, p := range spkgs {
		if p == nil {
			continue
		}
		if p.Pkg.Path() == pkgPath(h.Pkg) {
			l.pkg = p
		}
		for _, n := range h.Link {
			if p.Pkg.Path() == pkgPath(n) {
				l.linked[n] = p
			}
			if pc, ok := probeContracts[n]; ok && p.Pkg.Path() == "neosym/probe/"+pc {
				l.linked[n] = p
			}
		}
	}
	if l.pkg == nil {
		panic("harness package not loaded")
	}
	return l
}

func (l *loaded) newEngine(h *Harness, params []int, model map[string]string) (*Engine, *State) {
	e := &Engine{assumeSites: map[string][2]int{}, prog: l.prog, pkg: l.pkg, info: map[*ssa.Function]*fnInfo{}, globals: map[*ssa.Global]int{},
		named: map[string]BytesV{}, unwind: h.unwind(), funcs: map[string]int{}, solver: theSolver, params: params,
		linked: l.linked, names: h.Link, callers: []int{-1}, sigWho: map[int]*T{}, sigMsg: map[int]BytesV{},
		sigMembers: []string{"m0", "m1", "m2"}, txTime: t0var(), model: model,
		nativeMode: h.Native, harnessPkg: h.Pkg, obs: map[string]*Obligation{}, feasCache: map[[2]int]bool{}, replayCovers: map[string]int{}, replayHolds: map[string]int{}, replayFails: map[string]int{}}
	e.world = newWorld(1, model != nil)
	for n, dir := range probeContracts {
		e.world.srcDir[n] = filepath.Join(verifRoot, "engine", "probe", dir)
	}
	if model != nil {
		e.nextObj = 1 << 20
	}
	s0 := &State{pc: tTrue, heap: map[int]interface{}{}, height: I(1), lastTime: t0var(), gas: map[string]*T{}}
	if model != nil {
		s0.lastTime = I(0) // concrete clock values come from the chain in replay mode
	}
	var pkgsSorted []*ssa.Package
	for _, p := range l.prog.AllPackages() {
		pkgsSorted = append(pkgsSorted, p)
	}
	sort.Slice(pkgsSorted, func(i, j int) bool { return pkgsSorted[i].Pkg.Path() < pkgsSorted[j].Pkg.Path() })
	for _, p := range pkgsSorted {
		var names []string
		for n := range p.Members {
			names = append(names, n)
		}
		sort.Strings(names)
		for _, n := range names {
			if g, ok := p.Members[n].(*ssa.Global); ok {
				et := g.Type().(*types.Pointer).Elem()
				if at, ok := et.Underlying().(*types.Array); ok {
					el := make([]Value, at.Len())
					for i := range el {
						el[i] = zeroOf(at.Elem())
					}
					e.globals[g] = e.alloc(s0, ArrObj{el})
				} else {
					e.globals[g] = e.alloc(s0, CellObj{zeroOrNull(et)})
				}
			}
		}
	}
	if model == nil {
		t0var() // block clock: a realistic millisecond timestamp
	}
	// package initialisers (globals such as `token`, transfer-detail prefixes); native-Go mode runs none
	st := s0
	if !h.Native {
		inits := []*ssa.Package{}
		seen := map[*ssa.Package]bool{}
		for _, n := range h.Link {
			if p := l.linked[n]; p != nil && !seen[p] {
				seen[p] = true
				inits = append(inits, p)
			}
		}
		if !seen[l.pkg] {
			inits = append(inits, l.pkg)
		}
		for _, p := range inits {
			outs := e.runFrame(p.Func("init"), nil, st)
			if len(outs) != 1 || outs[0].panicked {
				panic("package init of " + p.Pkg.Path())
			}
			st = outs[0].State
		}
	}
	return e, st
}

var theSolver *Solver

func zeroOrNull(t types.Type) Value {
	switch t.Underlying().(type) {
	case *types.Slice, *types.Interface, *types.Pointer, *types.Map:
		return NullV{}
	}
	return zeroOf(t)
}

func cloneHeap(h map[int]interface{}) map[int]interface{} {
	n := make(map[int]interface{}, len(h))
	for k, v := range h {
		n[k] = v
	}
	return n
}

func guard(f func()) (msg string) {
	defer func() {
		if r := recover(); r != nil {
			switch x := r.(type) {
			case failNow:
				msg = "replay back end: " + x.msg
			default:
				msg = fmt.Sprint(r)
				if os.Getenv("NEOSYM_DEBUG") != "" {
					msg += "\n" + string(debug.Stack())
				}
			}
			if len(msg) > 600 && os.Getenv("NEOSYM_DEBUG") == "" {
				msg = msg[:600]
			}
		}
	}()
	f()
	return ""
}

// replayModel interprets the harness concretely with the model's values against a real chain.
func (l *loaded) replayModel(h *Harness, params []int, model map[string]string) (e *Engine, err string) {
	if h.Native { // the real package code runs under `go test` with the model's values
		r, msg := nativeReplay(h, params, model)
		if msg != "" {
			return nil, msg
		}
		e = &Engine{replayCovers: r.Covers, replayHolds: r.Holds, replayFails: r.Fails}
		for id := range r.Fails {
			e.replayLog = append(e.replayLog, "  assertion "+id+" FAILS in the real package code (go test -overlay)")
		}
		return e, ""
	}
	err = guard(func() {
		var st *State
		e, st = l.newEngine(h, params, model)
		defer func() { e.world.close() }()
		e.harnessFaults(h.Prop, e.runFrame(l.pkg.Func(h.Func), nil, st))
	})
	return e, err
}

func runJob(h *Harness, params []int, tier string) *JobResult {
	t0 := time.Now()
	res := &JobResult{Harness: h.Func, Pkg: h.Pkg, Prop: h.Prop, Params: params, Functions: map[string]int{}, Stats: map[string]int{}, Unwind: h.unwind()}
	var l *loaded
	if msg := guard(func() { l = load(h) }); msg != "" {
		res.Inconclusive = append(res.Inconclusive, "load: "+msg)
		res.WallMs = time.Since(t0).Milliseconds()
		return res
	}
	res.LoadMs = time.Since(t0).Milliseconds()
	if l.pkg.Func(h.Func) == nil {
		res.Inconclusive = append(res.Inconclusive, "harness function "+h.Func+" not found")
		return res
	}
	theSolver = newSolver()
	theSolver.cross = tier == "thorough"
	defer theSolver.close()
	var e *Engine
	msg := guard(func() {
		var st *State
		e, st = l.newEngine(h, params, nil)
		e.harnessFaults(h.Prop, e.runFrame(l.pkg.Func(h.Func), nil, st))
	})
	if e != nil {
		defer e.world.close()
		for _, id := range e.obOrder {
			res.Obligations = append(res.Obligations, e.obs[id])
		}
		for n, c := range e.funcs {
			res.Functions[n] = c
		}
		res.Stats = map[string]int{"blocks": e.stats.blocks, "forks": e.stats.forks, "merges": e.stats.merges,
			"feasibility_queries": e.stats.feas, "assertion_cover_queries": e.stats.queries, "tx_outcomes": e.stats.paths,
			"solver_calls": e.solver.count, "solver_unknown": e.solver.unknown, "instructions": e.stats.instrs}
		res.UnwindHit = e.unwindHit
		var dead []string
		for site, c := range e.assumeSites {
			if c[0] > 0 && c[1] == 0 {
				dead = append(dead, fmt.Sprintf("assumption at %s holds on none of the %d paths that reach it: nothing after it was explored, the obligations behind it are undecided", site, c[0]))
			}
		}
		sort.Strings(dead)
		res.Inconclusive = append(res.Inconclusive, dead...)
		for _, u := range e.unwindHit {
			res.Inconclusive = append(res.Inconclusive, u)
		}
	}
	if msg != "" {
		res.Inconclusive = append(res.Inconclusive, "engine: "+msg)
	}
	if progress {
		fmt.Fprintln(os.Stderr, "feasibility query sites:", feasSites)
		fmt.Fprintln(os.Stderr, "merge failures:", mergeFails)
	}
	res.SolverMs = theSolver.time.Milliseconds()
	res.SolverErrors = theSolver.errors
	res.CrossChecked, res.Disagree = theSolver.crossChecked, theSolver.disagreements
	// required successes that the exploration never even reached (e.g. the set-up no longer works): decide
	// them through the witnesses committed for the unchanged tree
	for _, id := range committedRequireIDs(h, params) {
		found := false
		for _, ob := range res.Obligations {
			if ob.ID == id {
				found = true
			}
		}
		if !found {
			res.Obligations = append(res.Obligations, &Obligation{ID: id, Kind: "require", Verdict: "unsat", Notes: []string{"never reached by the exploration"}})
		}
	}
	// replays
	vmRefuted := map[string]vmRefutation{}
	for _, ob := range res.Obligations {
		switch {
		case ob.Kind == "require" && ob.Verdict == "unsat" && ob.Unknown == 0:
			// a success demanded by the property is no longer reachable: confirm on the VM with the witness
			// committed for the unchanged tree
			w := committedWitness(h, params, ob.ID)
			if w == nil {
				ob.Replay = "no committed witness"
				break
			}
			r, errMsg := l.replayModel(h, params, w)
			res.Replays++
			switch {
			case errMsg != "":
				ob.Replay = "error: " + errMsg
			case r.replayCovers[ob.ID] == 0:
				ob.Replay = "required-success-lost"
				ob.Trace = append(r.replayLog, "  the invocation that succeeded on the unchanged tree no longer reaches "+ob.ID)
				ob.CexUsed = w
				res.ReplaysAgree++
			default:
				ob.Replay = "witness still succeeds on the VM"
			}
		case (ob.Kind == "cover" || ob.Kind == "require") && ob.Verdict == "sat":
			r, errMsg := l.replayModel(h, params, ob.Model)
			res.Replays++
			switch {
			case errMsg != "":
				ob.Replay = "error: " + errMsg
			case r.replayCovers[ob.ID] > 0 && len(r.replayFails) == 0:
				ob.Replay = "agrees"
				res.ReplaysAgree++
			case r.replayCovers[ob.ID] > 0:
				ob.Replay = "agrees (cover reached; an assertion failed on the VM, see its own obligation)"
				res.ReplaysAgree++
			default:
				ob.Replay = "diverges"
				ob.Trace = r.replayLog
			}
			if errMsg == "" { // assertions the real VM refutes in this concrete run, whatever the solver said about them
				for id := range r.replayFails {
					if _, seen := vmRefuted[id]; !seen {
						full := map[string]string{}
						for k, v := range ob.Model {
							full[k] = v
						}
						vmRefuted[id] = vmRefutation{model: full, trace: r.replayLog, via: ob.ID}
					}
				}
			}
			if tier == "witness" {
				ob.FullModel = ob.Model
			}
			ob.Model = trimModel(ob.Model)
		case ob.Kind != "cover" && ob.Kind != "require" && ob.Verdict == "sat":
			for _, m := range ob.Models {
				r, errMsg := l.replayModel(h, params, m)
				res.Replays++
				if errMsg != "" {
					ob.Replay = "error: " + errMsg
					continue
				}
				if r.replayFails[ob.ID] > 0 {
					ob.Replay = "reproduced"
					ob.Trace = r.replayLog
					ob.CexUsed = m
					res.ReplaysAgree++
					break
				}
				ob.Replay = "not-reproduced"
				ob.Trace = r.replayLog
			}
			for i := range ob.Models {
				ob.Models[i] = trimModel(ob.Models[i])
			}
		}
	}
	// Fallback for a job the engine could not finish (internal error, unwinding limit, no result): the
	// witnesses committed for the unchanged tree are still inputs of this harness. They are replayed on the
	// real VM, which evaluates every assertion on the way; what fails there is reported below. Without this a
	// change that drives the engine into something it cannot execute passed with an INCONCLUSIVE line.
	if len(res.Inconclusive) > 0 {
		for _, id := range committedRequireIDs(h, params) {
			w := committedWitness(h, params, id)
			if w == nil {
				continue
			}
			r, errMsg := l.replayModel(h, params, w)
			res.Replays++
			if errMsg != "" {
				res.Inconclusive = append(res.Inconclusive, "fallback replay of the committed witness of "+id+": "+errMsg)
				continue
			}
			res.ReplaysAgree++
			for aid := range r.replayFails {
				if _, seen := vmRefuted[aid]; !seen {
					vmRefuted[aid] = vmRefutation{model: w, trace: r.replayLog, via: id + " (committed for the unchanged tree; the symbolic run of this job was inconclusive)"}
				}
				found := false
				for _, ob := range res.Obligations {
					if ob.ID == aid {
						found = true
					}
				}
				if !found {
					kind := "assert"
					if r.replayKnown[aid] {
						kind = "known"
					}
					res.Obligations = append(res.Obligations, &Obligation{ID: aid, Kind: kind, Verdict: "unknown", Notes: []string{"not decided by the symbolic run"}})
				}
			}
		}
	}
	// An assertion that fails on the real VM during the replay of a witness is a reproduced counterexample
	// even if the solver discharged it (then the encoding is wrong somewhere) or reported other models. It
	// used to be mentioned in the witness's status only, where nothing looked at it.
	for _, ob := range res.Obligations {
		rf, ok := vmRefuted[ob.ID]
		if !ok || (ob.Kind != "assert" && ob.Kind != "known") || ob.Replay == "reproduced" {
			continue
		}
		ob.Notes = append(ob.Notes, fmt.Sprintf("solver verdict was %q; the assertion fails on the real VM in the replay of the witness of %s: the encoding diverges from the VM here, or the engine lost this path", ob.Verdict, rf.via))
		ob.Verdict = "sat"
		ob.Replay = "reproduced"
		ob.CexUsed = rf.model
		ob.Trace = rf.trace
	}
	res.WallMs = time.Since(t0).Milliseconds()
	return res
}

type vmRefutation struct {
	model map[string]string
	trace []string
	via   string
}

// trimModel drops helper variables (fresh digest/entry-script bytes) from a model kept in the evidence.
func trimModel(m map[string]string) map[string]string {
	out := map[string]string{}
	for k, v := range m {
		if i := strings.LastIndex(k, "_"); i > 0 && hiddenTags[k[:i]] {
			continue
		}
		if strings.HasPrefix(k, "entryscript") || strings.HasPrefix(k, "sha256") || strings.HasPrefix(k, "ripemd160") ||
			strings.HasPrefix(k, "stdacct") || strings.HasPrefix(k, "multisig") || k == "T0" {
			continue
		}
		out[k] = v
	}
	return compactModel(out)
}

// compactModel renders tag_i byte variables as one hex/quoted string per tag.
func compactModel(m map[string]string) map[string]string {
	strs := map[string][]byte{}
	out := map[string]string{}
	for k, v := range m {
		if i := strings.LastIndex(k, "_"); i > 0 {
			var idx, n int
			if _, err := fmt.Sscanf(k[i+1:], "%d", &idx); err == nil && fmt.Sprint(idx) == k[i+1:] {
				if _, err := fmt.Sscanf(v, "%d", &n); err == nil && n >= 0 && n < 256 {
					b := strs[k[:i]]
					for len(b) <= idx {
						b = append(b, 0)
					}
					b[idx] = byte(n)
					strs[k[:i]] = b
					continue
				}
			}
		}
		out[k] = v
	}
	for k, b := range strs {
		out[k] = fmt.Sprintf("%q", b)
	}
	return out
}

func jobMain(args []string) {
	// neosym job <harness-func> <tier> [params...]
	h := findHarness(args[0])
	if h == nil {
		fmt.Fprintln(os.Stderr, "unknown harness", args[0])
		os.Exit(2)
	}
	var params []int
	for _, a := range args[2:] {
		var n int
		fmt.Sscanf(a, "%d", &n)
		params = append(params, n)
	}
	res := runJob(h, params, args[1])
	out, _ := json.Marshal(res)
	fmt.Println("JOBRESULT " + string(out))
}

func t0var() *T { return VarR("T0", big.NewInt(1000000000000), big.NewInt(1999999999999)) }


// committed witnesses of required successes (written by `neosym witnesses`, never at check time)
type witnessFile map[string]map[string]string

func witnessKey(h *Harness, params []int, id string) string {
	return fmt.Sprintf("%s%v %s", h.Func, params, id)
}

func committedWitness(h *Harness, params []int, id string) map[string]string {
	data, err := os.ReadFile(filepath.Join(verifRoot, "spec", "witnesses", h.Prop+".json"))
	if err != nil {
		return nil
	}
	var wf witnessFile
	if json.Unmarshal(data, &wf) != nil {
		return nil
	}
	return wf[witnessKey(h, params, id)]
}


func committedRequireIDs(h *Harness, params []int) []string {
	data, err := os.ReadFile(filepath.Join(verifRoot, "spec", "witnesses", h.Prop+".json"))
	if err != nil {
		return nil
	}
	var wf witnessFile
	if json.Unmarshal(data, &wf) != nil {
		return nil
	}
	prefix := fmt.Sprintf("%s%v ", h.Func, params)
	var ids []string
	for k := range wf {
		if strings.HasPrefix(k, prefix) {
			ids = append(ids, k[len(prefix):])
		}
	}
	sort.Strings(ids)
	return ids
}
