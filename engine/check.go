package main

// `neosym check <property> --tier quick|thorough`: runs every registered harness of the property (one
// subprocess per harness × parameter tuple, in parallel), decides the verdict, writes the evidence file.

import (
	"bufio"
	"encoding/json"
	"fmt"
	"os"
	"os/exec"
	"path/filepath"
	"sort"
	"strconv"
	"strings"
	"sync"
	"time"
)

type KnownFinding struct {
	Property  string `json:"property"`
	ID        string `json:"id"`        // D-number
	Assertion string `json:"assertion"` // obligation id (call site + carve-out) it is tied to
	Status    string `json:"status"`    // known | fixed
	Commit    string `json:"commit,omitempty"`
	What      string `json:"what"`
}

func loadKnown() []KnownFinding {
	var k struct {
		Findings []KnownFinding `json:"findings"`
	}
	data, err := os.ReadFile(filepath.Join(verifRoot, "KNOWN_FINDINGS.json"))
	if err != nil {
		return nil
	}
	if err := json.Unmarshal(data, &k); err != nil {
		panic("KNOWN_FINDINGS.json: " + err.Error())
	}
	return k.Findings
}

type jobSpec struct {
	h      *Harness
	params []int
}

func runJobProcess(j jobSpec, tier string, timeout time.Duration) *JobResult {
	self, _ := os.Executable()
	args := []string{"job", j.h.Func, tier}
	for _, p := range j.params {
		args = append(args, strconv.Itoa(p))
	}
	cmd := exec.Command(self, args...)
	cmd.Env = append(os.Environ(), "GOFLAGS=-mod=mod", "GOPROXY=off", "GOSUMDB=off", "GOTOOLCHAIN=local")
	out, _ := cmd.StdoutPipe()
	var stderr strings.Builder
	cmd.Stderr = &stderr
	res := &JobResult{Harness: j.h.Func, Pkg: j.h.Pkg, Prop: j.h.Prop, Params: j.params}
	t0 := time.Now()
	if err := cmd.Start(); err != nil {
		res.Inconclusive = []string{"cannot start job: " + err.Error()}
		return res
	}
	timer := time.AfterFunc(timeout, func() { cmd.Process.Kill() })
	defer timer.Stop()
	got := false
	sc := bufio.NewReaderSize(out, 1<<20)
	for {
		line, err := sc.ReadString('\n')
		if strings.HasPrefix(line, "JOBRESULT ") {
			var r JobResult
			if json.Unmarshal([]byte(strings.TrimSpace(line[10:])), &r) == nil {
				res = &r
				got = true
			}
		}
		if err != nil {
			break
		}
	}
	cmd.Wait()
	if !got {
		tail := stderr.String()
		if len(tail) > 400 {
			tail = tail[len(tail)-400:]
		}
		res.Inconclusive = append(res.Inconclusive, fmt.Sprintf("job ended without a result after %v (time limit %v): %s", time.Since(t0).Round(time.Second), timeout, tail))
		res.WallMs = time.Since(t0).Milliseconds()
	}
	return res
}

func sanitize(s string) string {
	return strings.Map(func(r rune) rune {
		if r >= 'a' && r <= 'z' || r >= 'A' && r <= 'Z' || r >= '0' && r <= '9' || r == '-' || r == '_' {
			return r
		}
		return '_'
	}, s)
}

func checkMain(prop, tier string, only string) int {
	t0 := time.Now()
	seed := 0
	if v := os.Getenv("VERIF_SEED"); v != "" {
		seed, _ = strconv.Atoi(v)
	}
	var jobs []jobSpec
	for i := range registry {
		h := &registry[i]
		if h.Prop != prop || (only != "" && h.Func != only) {
			continue
		}
		ps := h.Quick
		if tier == "thorough" && h.Thorough != nil {
			ps = h.Thorough
		}
		if ps == nil {
			ps = [][]int{nil}
		}
		for _, p := range ps {
			jobs = append(jobs, jobSpec{h, p})
		}
	}
	if len(jobs) == 0 {
		fmt.Println("no harness registered for", prop)
		return 2
	}
	timeout := 12 * time.Minute // quick tier: the slowest job takes about 100 s on the unchanged tree
	if tier == "thorough" {
		timeout = 90 * time.Minute
	}
	results := make([]*JobResult, len(jobs))
	workers := 14
	if v := os.Getenv("NEOSYM_WORKERS"); v != "" {
		workers, _ = strconv.Atoi(v)
	}
	sem := make(chan struct{}, workers)
	var wg sync.WaitGroup
	for i := range jobs {
		wg.Add(1)
		go func(i int) {
			defer wg.Done()
			sem <- struct{}{}
			defer func() { <-sem }()
			results[i] = runJobProcess(jobs[i], tier, timeout)
		}(i)
	}
	wg.Wait()

	known := loadKnown()
	knownBy := map[string]KnownFinding{}
	for _, k := range known {
		if k.Property == prop && k.Status == "known" {
			knownBy[k.Assertion] = k
		}
	}
	os.MkdirAll(filepath.Join(verifRoot, "replays", prop), 0755)
	violations, knownSeen, inconclusive := 0, 0, 0
	var lines []string
	var samples []any
	states, transitions, replays, agree, obligations, discharged := 0, 0, 0, 0, 0, 0
	funcs := map[string]int{}
	queries := map[string]int{}
	var solverMs int64
	var notes []string
	printedKnown := map[string]bool{}
	unwindHits := 0
	cross, disagree := 0, 0
	for _, r := range results {
		tag := r.Harness
		if len(r.Params) > 0 {
			tag += fmt.Sprint(r.Params)
		}
		states += r.Stats["tx_outcomes"] + r.Stats["forks"] + 1
		transitions += r.Stats["instructions"]
		replays += r.Replays
		agree += r.ReplaysAgree
		solverMs += r.SolverMs
		cross += r.CrossChecked
		disagree += r.Disagree
		unwindHits += len(r.UnwindHit)
		for k, v := range r.Functions {
			funcs[k] += v
		}
		for _, k := range []string{"feasibility_queries", "assertion_cover_queries", "solver_unknown", "solver_calls"} {
			queries[k] += r.Stats[k]
		}
		for _, m := range r.Inconclusive {
			inconclusive++
			m = strings.Join(strings.Fields(m), " ")
			if len(m) > 400 {
				m = m[:400] + " …"
			}
			lines = append(lines, fmt.Sprintf("INCONCLUSIVE: %s: %s", tag, m))
		}
		for _, m := range r.SolverErrors {
			inconclusive++
			lines = append(lines, fmt.Sprintf("INCONCLUSIVE: %s: solver: %s", tag, m))
		}
		for _, ob := range r.Obligations {
			if len(ob.ID) > 4 && ob.ID[0] == 'C' && ob.ID[3] == '/' && ob.ID[:3] != prop {
				continue // an obligation of another property decided by the same harness
			}
			obligations++
			sample := map[string]any{"harness": tag, "obligation": ob.ID, "kind": ob.Kind, "verdict": ob.Verdict, "path_queries": ob.Paths, "ms": ob.Ms}
			switch ob.Kind {
			case "cover", "require":
				switch {
				case ob.Kind == "require" && ob.Replay == "required-success-lost":
					path := filepath.Join(verifRoot, "replays", prop, sanitize(tag+"-"+ob.ID)+".json")
					rp := map[string]any{"property": prop, "harness": r.Harness, "params": r.Params, "assertion": ob.ID, "model": ob.CexUsed, "trace": ob.Trace, "required": true}
					data, _ := json.MarshalIndent(rp, "", " ")
					os.WriteFile(path, data, 0644)
					violations++
					lines = append(lines, fmt.Sprintf("VIOLATION property=%s replay=%s", prop, path))
					lines = append(lines, fmt.Sprintf("  harness %s: the required success %s is unreachable (unsat) and the witness of the unchanged tree fails on the real VM:%s", tag, ob.ID, fmtModel(trimModel(ob.CexUsed))))
					for _, t := range ob.Trace {
						lines = append(lines, "  "+t)
					}
				case ob.Verdict == "sat" && strings.HasPrefix(ob.Replay, "agrees"):
					discharged++
					sample["witness"] = ob.Model
					sample["replay"] = ob.Replay
				case ob.Verdict == "sat":
					inconclusive++
					lines = append(lines, fmt.Sprintf("INCONCLUSIVE: %s: witness of cover point %s: model/VM divergence (%s) %s", tag, ob.ID, ob.Replay, strings.Join(ob.Trace, " | ")))
				default:
					inconclusive++
					lines = append(lines, fmt.Sprintf("INCONCLUSIVE: %s: cover point %s not reachable (%s): vacuity", tag, ob.ID, ob.Verdict))
				}
			default:
				if ob.Unknown > 0 {
					inconclusive++
					lines = append(lines, fmt.Sprintf("INCONCLUSIVE: %s: %s: %d of %d path queries undecided (%s)", tag, ob.ID, ob.Unknown, ob.Paths, strings.Join(ob.Notes, ",")))
				}
				switch {
				case ob.Verdict == "unsat" && ob.Unknown == 0:
					discharged++
				case ob.Verdict == "sat" && ob.Replay == "reproduced":
					path := filepath.Join(verifRoot, "replays", prop, sanitize(tag+"-"+ob.ID)+".json")
					rp := map[string]any{"property": prop, "harness": r.Harness, "params": r.Params, "assertion": ob.ID, "model": ob.CexUsed, "trace": ob.Trace}
					data, _ := json.MarshalIndent(rp, "", " ")
					os.WriteFile(path, data, 0644)
					sample["counterexample"] = trimModel(ob.CexUsed)
					sample["replay"] = "reproduced on the real VM"
					if k, ok := knownBy[ob.ID]; ok && ob.Kind == "known" {
						knownSeen++
						if !printedKnown[ob.ID] {
							printedKnown[ob.ID] = true
							lines = append(lines, fmt.Sprintf("KNOWN-FINDING: property=%s %s (%s) %s; input %s", prop, k.ID, ob.ID, k.What, fmtModel(trimModel(ob.CexUsed))))
						}
					} else {
						violations++
						lines = append(lines, fmt.Sprintf("VIOLATION property=%s replay=%s", prop, path))
						lines = append(lines, fmt.Sprintf("  harness %s assertion %s fails on the real VM with%s", tag, ob.ID, fmtModel(trimModel(ob.CexUsed))))
						for _, t := range ob.Trace {
							lines = append(lines, "  "+t)
						}
					}
				case ob.Verdict == "sat":
					inconclusive++
					lines = append(lines, fmt.Sprintf("INCONCLUSIVE: %s: %s: solver model did not reproduce on the VM (%s): encoder/stub divergence, no alarm. %s", tag, ob.ID, ob.Replay, strings.Join(ob.Trace, " | ")))
				}
			}
			if len(samples) < 60 {
				samples = append(samples, sample)
			}
		}
		reached := 0
		for _, ob := range r.Obligations { // the completion obligation exists in every job and proves nothing about reachability
			if !strings.HasSuffix(ob.ID, "/harness-runs-to-completion") {
				reached++
			}
		}
		if reached == 0 && len(r.Inconclusive) == 0 {
			inconclusive++
			lines = append(lines, fmt.Sprintf("INCONCLUSIVE: %s: no obligation reached (every path was dropped by an assumption or ended before the first assertion): vacuous", tag))
		}
	}
	for _, l := range lines {
		fmt.Println(l)
	}
	fnames := make([]string, 0, len(funcs))
	for k := range funcs {
		if !strings.Contains(k, "zz_verif") {
			fnames = append(fnames, k)
		}
	}
	sort.Strings(fnames)
	var hs []map[string]any
	for i, r := range results {
		hs = append(hs, map[string]any{"harness": r.Harness, "params": r.Params, "wall_ms": r.WallMs, "solver_ms": r.SolverMs,
			"obligations": len(r.Obligations), "unwind_limit": r.Unwind, "bound": jobs[i].h.Bound, "stats": r.Stats})
	}
	ev := map[string]any{
		"property_id": prop, "tier": tier, "seed": seed, "level": "model_checking",
		"coverage": map[string]any{
			"states": max(states, 1), "transitions": max(transitions, 1), "traces_validated_against_impl": agree,
			"samples": samples, "obligations": obligations, "discharged": discharged,
			"functions_encoded": fnames, "harness_runs": hs, "queries": queries, "solver_time_s": float64(solverMs) / 1000,
			"solvers": []string{"z3 5.1.0 (z3-new -in, primary)", "cvc5 1.0 (fallback / cross-check in thorough tier)", "z3 4.8.12 (fallback)"},
			"unwinding_assertions_hit": unwindHits, "inconclusive": inconclusive, "known_findings_seen": knownSeen,
			"replays_on_real_vm": replays, "cross_solver_checked": cross, "cross_solver_disagreements": disagree,
			"explanation": "states = completed transaction outcomes + path forks of the symbolic exploration; transitions = SSA instructions executed symbolically; traces_validated_against_impl = solver models (cover witnesses and counterexamples) replayed on a real neo-go chain running the contracts compiled from the working tree, with the VM agreeing with the engine",
		},
		"assumptions": append([]string{
			"bounded symbolic execution of go/ssa of the working tree; bounds per harness in coverage.harness_runs[].bound",
			"NeoVM/neo-go runtime replaced by the stubs listed in DESIGN.md 2.3 (storage write log, signer-set witness model, injective digests, native GAS ledger, one transaction per block)",
			"not modelled: GAS metering, 256-bit integer limit, storage key/value size limits, witness scopes, re-entrancy from unlinked contracts",
			"unsat = holds for every value inside the bound; nothing is claimed outside it",
		}, notes...),
		"wall_s":     time.Since(t0).Seconds(),
		"violations": violations,
	}
	os.MkdirAll(filepath.Join(verifRoot, "evidence"), 0755)
	data, _ := json.MarshalIndent(ev, "", " ")
	os.WriteFile(filepath.Join(verifRoot, "evidence", prop+".json"), data, 0644)
	fmt.Printf("%s %s: %d harness runs, %d obligations, %d discharged, %d known findings, %d inconclusive, %d violations, %d/%d replays agree, %.1fs\n",
		prop, tier, len(jobs), obligations, discharged, knownSeen, inconclusive, violations, agree, replays, time.Since(t0).Seconds())
	if violations > 0 {
		return 1
	}
	return 0
}

func replayMain(path string) int {
	data, err := os.ReadFile(path)
	if err != nil {
		fmt.Println(err)
		return 2
	}
	var rp struct {
		Property  string            `json:"property"`
		Harness   string            `json:"harness"`
		Params    []int             `json:"params"`
		Assertion string            `json:"assertion"`
		Model     map[string]string `json:"model"`
		Required  bool              `json:"required"`
	}
	if err := json.Unmarshal(data, &rp); err != nil {
		fmt.Println(err)
		return 2
	}
	h := findHarness(rp.Harness)
	if h == nil {
		fmt.Println("unknown harness", rp.Harness)
		return 2
	}
	theSolver = newSolver()
	defer theSolver.close()
	l := load(h)
	e, msg := l.replayModel(h, rp.Params, rp.Model)
	if msg != "" {
		fmt.Println("replay error:", msg)
		return 2
	}
	fmt.Printf("replay of %s / %s with%s\n", rp.Harness, rp.Assertion, fmtModel(trimModel(rp.Model)))
	for _, l := range e.replayLog {
		fmt.Println(l)
	}
	if rp.Required {
		if e.replayCovers[rp.Assertion] == 0 {
			fmt.Printf("the required success %s is not reached on the real VM\n", rp.Assertion)
			fmt.Printf("VIOLATION property=%s replay=%s\n", rp.Property, path)
			return 1
		}
		fmt.Println("the required success is reached on the real VM for this input")
		return 0
	}
	if e.replayFails[rp.Assertion] > 0 {
		fmt.Printf("VIOLATION property=%s replay=%s\n", rp.Property, path)
		return 1
	}
	fmt.Println("the assertion holds on the real VM for this input")
	return 0
}


// witnessesMain: `neosym witnesses <prop>` runs the quick AND thorough parameter tuples of the property and
// commits one witness per required success (run on the unchanged tree only; never part of a check).
func witnessesMain(prop string) int {
	wf := witnessFile{}
	seen := map[string]bool{}
	var jobs []jobSpec
	for i := range registry {
		h := &registry[i]
		if h.Prop != prop {
			continue
		}
		for _, ps := range [][][]int{h.Quick, h.Thorough} {
			if ps == nil {
				ps = [][]int{nil}
			}
			for _, p := range ps {
				k := fmt.Sprint(h.Func, p)
				if !seen[k] {
					seen[k] = true
					jobs = append(jobs, jobSpec{h, p})
				}
			}
		}
	}
	results := make([]*JobResult, len(jobs))
	sem := make(chan struct{}, 14)
	var wg sync.WaitGroup
	for i := range jobs {
		wg.Add(1)
		go func(i int) {
			defer wg.Done()
			sem <- struct{}{}
			defer func() { <-sem }()
			results[i] = runJobProcess(jobs[i], "witness", 60*time.Minute)
		}(i)
	}
	wg.Wait()
	n := 0
	for i, r := range results {
		for _, ob := range r.Obligations {
			if ob.Kind == "require" && ob.Verdict == "sat" && strings.HasPrefix(ob.Replay, "agrees") {
				wf[witnessKey(jobs[i].h, jobs[i].params, ob.ID)] = ob.FullModel
				n++
			}
		}
	}
	if n == 0 {
		fmt.Println("no required successes in", prop)
		return 0
	}
	os.MkdirAll(filepath.Join(verifRoot, "spec", "witnesses"), 0755)
	data, _ := json.MarshalIndent(wf, "", " ")
	os.WriteFile(filepath.Join(verifRoot, "spec", "witnesses", prop+".json"), data, 0644)
	fmt.Printf("%s: %d witnesses of required successes committed to spec/witnesses/%s.json\n", prop, n, prop)
	return 0
}
