package main

// World: what both back ends must agree on (committee keys, test accounts, contract hashes) and, in replay
// mode, a real neo-go chain (neotest, in-process) running the contracts compiled from the working tree by
// the pinned compiler.

import (
	"crypto/elliptic"
	"crypto/sha256"
	"fmt"
	"math/big"
	"os"
	"path/filepath"
	"regexp"
	"slices"
	"strings"
	"testing"

	"github.com/nspcc-dev/neo-go/pkg/config"
	istorage "github.com/nspcc-dev/neo-go/pkg/core/interop/storage"
	"github.com/nspcc-dev/neo-go/pkg/core/native/nativenames"
	"github.com/nspcc-dev/neo-go/pkg/core/state"
	"github.com/nspcc-dev/neo-go/pkg/crypto/keys"
	"github.com/nspcc-dev/neo-go/pkg/neotest"
	"github.com/nspcc-dev/neo-go/pkg/neotest/chain"
	"github.com/nspcc-dev/neo-go/pkg/smartcontract"
	"github.com/nspcc-dev/neo-go/pkg/smartcontract/trigger"
	"github.com/nspcc-dev/neo-go/pkg/util"
	"github.com/nspcc-dev/neo-go/pkg/vm/stackitem"
	"github.com/nspcc-dev/neo-go/pkg/vm/vmstate"
	"github.com/nspcc-dev/neo-go/pkg/wallet"
	"go.uber.org/zap"
)

type fakeT struct {
	testing.TB
	cleanups []func()
}
type failNow struct{ msg string }

func (f *fakeT) Helper()                        {}
func (f *fakeT) Name() string                   { return "neosym" }
func (f *fakeT) Logf(format string, a ...any)   {}
func (f *fakeT) Log(a ...any)                   {}
func (f *fakeT) Errorf(format string, a ...any) { panic(failNow{fmt.Sprintf(format, a...)}) }
func (f *fakeT) Fatalf(format string, a ...any) { panic(failNow{fmt.Sprintf(format, a...)}) }
func (f *fakeT) FailNow()                       { panic(failNow{"FailNow"}) }
func (f *fakeT) Cleanup(fn func())              { f.cleanups = append(f.cleanups, fn) }
func (f *fakeT) TempDir() string {
	d, _ := os.MkdirTemp("", "neosym")
	f.cleanups = append(f.cleanups, func() { os.RemoveAll(d) })
	return d
}

func detAccount(tag string) *wallet.Account {
	h := sha256.Sum256([]byte("neosym-account-" + tag))
	k, err := keys.NewPrivateKeyFromBytes(h[:])
	if err != nil {
		panic(err)
	}
	return wallet.NewAccountFromPrivateKey(k)
}

type World struct {
	n         int // committee size
	t         *fakeT
	ex        *neotest.Executor
	privs     []*keys.PrivateKey // committee keys, sorted by public key (the order neo.GetCommittee returns)
	pubs      [][]byte
	validator neotest.Signer
	committee neotest.Signer // n/2+1 of n
	alphabet  neotest.Signer // 2n/3+1 of n
	payer     neotest.Signer
	accounts  map[util.Uint160]neotest.Signer
	hashes    map[string]util.Uint160
	srcDir    map[string]string // contract name -> source dir (probe contracts live outside /repo)
	nns       util.Uint160
	live      bool // replay mode: transactions are really sent
	lastAer   *state.AppExecResult
	preDump   map[string]string
	postDump  map[string]string
	trackFx   bool
	kernels   map[string]*neotest.Contract
	oldDirs   map[int64]string
}

func multisigAccounts(privs []*keys.PrivateKey, m int) []*wallet.Account {
	pubs := make(keys.PublicKeys, len(privs))
	for i := range privs {
		pubs[i] = privs[i].PublicKey()
	}
	accs := make([]*wallet.Account, len(privs))
	for i := range privs {
		accs[i] = wallet.NewAccountFromPrivateKey(privs[i])
		if err := accs[i].ConvertMultisig(m, pubs.Copy()); err != nil {
			panic(err)
		}
	}
	return accs
}

func newWorld(n int, live bool) *World {
	w := &World{n: n, t: &fakeT{}, accounts: map[util.Uint160]neotest.Signer{}, hashes: map[string]util.Uint160{}, srcDir: map[string]string{}, live: live, trackFx: live}
	for pn, dir := range probeContracts { // probe contracts live in the engine module
		w.srcDir[pn] = filepath.Join(verifRoot, "engine", "probe", dir)
	}
	w.privs = make([]*keys.PrivateKey, n)
	for i := range w.privs {
		w.privs[i] = detAccount(fmt.Sprintf("committee%d", i)).PrivateKey()
	}
	unsorted := append([]*keys.PrivateKey(nil), w.privs...)
	slices.SortFunc(w.privs, func(a, b *keys.PrivateKey) int { return a.PublicKey().Cmp(b.PublicKey()) })
	for _, p := range w.privs {
		w.pubs = append(w.pubs, p.PublicKey().Bytes())
	}
	// the validator is the first *configured* standby member
	w.validator = neotest.NewMultiSigner(multisigAccounts(unsorted[:1], 1)...)
	w.committee = neotest.NewMultiSigner(multisigAccounts(w.privs, n/2+1)...)
	w.alphabet = neotest.NewMultiSigner(multisigAccounts(w.privs, n*2/3+1)...)
	bc, _ := chain.NewSingleWithOptions(w.t, &chain.Options{Logger: zap.NewNop(), BlockchainConfigHook: func(c *config.Blockchain) {
		sc := make([]string, n)
		for i := range unsorted {
			sc[i] = unsorted[i].PublicKey().StringCompressed()
		}
		c.StandbyCommittee = sc
		c.ValidatorsCount = 1
	}})
	w.ex = neotest.NewExecutor(w.t, bc, w.validator, w.committee)
	w.payer = neotest.NewSingleSigner(detAccount("payer"))
	for _, s := range []neotest.Signer{w.validator, w.committee, w.alphabet, w.payer} {
		w.accounts[s.ScriptHash()] = s
	}
	for i := range w.privs {
		s := neotest.NewSingleSigner(wallet.NewAccountFromPrivateKey(w.privs[i]))
		w.accounts[s.ScriptHash()] = s
	}
	if live {
		w.ex.ValidatorInvoker(w.nativeU("GasToken")).Invoke(w.t, true, "transfer",
			w.validator.ScriptHash(), w.payer.ScriptHash(), int64(100000_0000_0000), nil)
	}
	return w
}

func (w *World) close() {
	for i := len(w.t.cleanups) - 1; i >= 0; i-- {
		w.t.cleanups[i]()
	}
}

func (w *World) nativeU(name string) util.Uint160 {
	h, err := w.ex.Chain.GetNativeContractScriptHash(name)
	if err != nil {
		panic(err)
	}
	return h
}
func (w *World) nativeHash(name string) []byte { return w.nativeU(name).BytesBE() }
func (w *World) gasHash() []byte               { return w.nativeHash(nativenames.Gas) }

// multisigHash: account of the m-of-keys multi-signature contract (keys as given by the contract code).
func (w *World) multisigHash(m int, pubs [][]byte) ([]byte, bool) {
	ks := make(keys.PublicKeys, len(pubs))
	for i, p := range pubs {
		k, err := keys.NewPublicKeyFromBytes(p, elliptic.P256())
		if err != nil {
			return nil, false
		}
		ks[i] = k
	}
	script, err := smartcontract.CreateMultiSigRedeemScript(m, ks)
	if err != nil {
		return nil, false
	}
	h := hashScript(script)
	// make the account usable as a signer in replays when all keys are known
	if _, ok := w.accounts[h]; !ok {
		var privs []*keys.PrivateKey
		for _, p := range pubs {
			if pk := w.privOf(p); pk != nil {
				privs = append(privs, pk)
			}
		}
		if len(privs) == len(pubs) {
			accs := multisigAccounts(privs, m)
			slices.SortFunc(accs, func(a, b *wallet.Account) int { return a.PublicKey().Cmp(b.PublicKey()) })
			w.accounts[h] = neotest.NewMultiSigner(accs...)
		}
	}
	return h.BytesBE(), true
}

var knownTags = map[string]*wallet.Account{}

func (w *World) privOf(pub []byte) *keys.PrivateKey {
	for _, p := range w.privs {
		if string(p.PublicKey().Bytes()) == string(pub) {
			return p
		}
	}
	for _, a := range knownTags {
		if string(a.PublicKey().Bytes()) == string(pub) {
			return a.PrivateKey()
		}
	}
	return nil
}

func tagAccount(tag string) *wallet.Account {
	if a, ok := knownTags[tag]; ok {
		return a
	}
	a := detAccount(tag)
	knownTags[tag] = a
	return a
}

func (w *World) contractDir(name string) string {
	if d, ok := w.srcDir[name]; ok {
		return d
	}
	return filepath.Join(repoRoot, "contracts", name)
}

func (w *World) compile(name string) *neotest.Contract {
	d := w.contractDir(name)
	return neotest.CompileFile(w.t, w.validator.ScriptHash(), d, filepath.Join(d, "config.yml"))
}

// hashOf: script hash (BE bytes) the named contract gets when deployed by the validator; computed by
// compiling the contract, so the symbolic side and the VM agree.
func (w *World) hashOf(name string) []byte {
	if h, ok := w.hashes[name]; ok {
		return h.BytesBE()
	}
	c := w.compile(name)
	w.hashes[name] = c.Hash
	return c.Hash.BytesBE()
}

func (w *World) keyHash(pub []byte) []byte {
	k, err := keys.NewPublicKeyFromBytes(pub, elliptic.P256())
	if err != nil {
		panic(err)
	}
	return k.GetScriptHash().BytesBE()
}

func (w *World) account(tag string) util.Uint160 {
	s := neotest.NewSingleSigner(tagAccount(tag))
	w.accounts[s.ScriptHash()] = s
	return s.ScriptHash()
}

func (w *World) memberAcct(i int) []byte {
	return w.keyHash(w.pubs[i])
}

// ---- live operations (replay mode) ----

func (w *World) sendScript(script []byte, signers []neotest.Signer) *state.AppExecResult {
	tx := w.ex.PrepareInvocation(w.t, script, signers)
	if w.trackFx {
		w.preDump = w.dumpStorage()
	}
	w.ex.AddNewBlock(w.t, tx)
	if w.trackFx {
		w.postDump = w.dumpStorage()
	}
	aer, err := w.ex.Chain.GetAppExecResults(tx.Hash(), trigger.Application)
	if err != nil || len(aer) == 0 {
		panic(fmt.Sprint("no exec result: ", err))
	}
	w.lastAer = &aer[0]
	return &aer[0]
}

func (w *World) deploy(name string, goArgs []any) {
	c := w.compile(name)
	w.hashes[name] = c.Hash
	if name != "nns" && w.nns == (util.Uint160{}) { // NNS first (contract id 1), as every deployment does
		w.deploy("nns", []any{[]any{[]any{"neofs", "ops@nspcc.io"}}})
	}
	if name != "nns" { // register the name before dependants resolve it
		inv := w.ex.NewInvoker(w.nns, w.uniq(w.validator, w.committee)...)
		inv.Invoke(w.t, true, "register", name+".neofs", w.committee.ScriptHash(), "ops@nspcc.ru", int64(3600), int64(600), int64(10*365*24*3600), int64(3600))
		inv.Invoke(w.t, nil, "addRecord", name+".neofs", 16, c.Hash.StringLE())
	}
	rawManifest, _ := jsonMarshal(c.Manifest)
	neb, _ := c.NEF.Bytes()
	script, err := smartcontract.CreateCallScript(w.ex.Chain.ManagementContractHash(), "deploy", neb, rawManifest, goArgs)
	if err != nil {
		panic(err)
	}
	aer := w.sendScript(script, w.uniq(w.validator, w.committee, w.alphabet))
	if aer.VMState != vmstate.Halt {
		panic(failNow{"deploy of " + name + " faulted: " + aer.FaultException})
	}
	if name == "nns" {
		w.nns = c.Hash
	}
}

func toGoHeap(v Value, s *State) any {
	switch x := v.(type) {
	case ListV:
		arr := s.heap[x.id].(ArrObj).e
		out := make([]any, len(arr))
		for i := range arr {
			out[i] = toGoHeap(arr[i], s)
		}
		return out
	case StructV:
		out := make([]any, len(x.f))
		for i := range x.f {
			out[i] = toGoHeap(x.f[i], s)
		}
		return out
	case MapV:
		obj := s.heap[x.id].(MapObj)
		m := stackitem.NewMap()
		for i := range obj.keys {
			m.Add(stackitem.Make(toGoHeap(obj.keys[i], s)), stackitem.Make(toGoHeap(obj.vals[i], s)))
		}
		return m
	}
	return toGo(v)
}

func toGo(v Value) any {
	switch x := v.(type) {
	case IntV:
		if !x.t.isC() {
			panic("replay: symbolic int")
		}
		return new(big.Int).Set(x.t.n)
	case BoolV:
		if !x.t.isC() {
			panic("replay: symbolic bool")
		}
		return x.t.b
	case BytesV:
		s, ok := isConstBytes(x)
		if !ok {
			panic("replay: symbolic bytes")
		}
		return []byte(s)
	case NullV:
		return nil
	case listLit:
		out := make([]any, len(x.e))
		for i := range x.e {
			out[i] = toGo(x.e[i])
		}
		return out
	}
	panic(fmt.Sprintf("toGo %T", v))
}

func fromItem(it stackitem.Item) Value {
	switch it.Type() {
	case stackitem.IntegerT:
		n, _ := it.TryInteger()
		return IntV{IB(n)}
	case stackitem.BooleanT:
		b, _ := it.TryBool()
		return BoolV{B(b)}
	case stackitem.ByteArrayT, stackitem.BufferT:
		b, _ := it.TryBytes()
		return constBytes(string(b))
	case stackitem.AnyT:
		return NullV{}
	case stackitem.InteropT:
		it, ok := it.Value().(*istorage.Iterator)
		if !ok {
			panic("fromItem: interop item is not an iterator")
		}
		var vals []Value
		for it.Next() {
			vals = append(vals, fromItem(it.Value()))
		}
		return listLit{vals}
	case stackitem.MapT:
		var vals []Value
		for _, el := range it.Value().([]stackitem.MapElement) {
			vals = append(vals, listLit{[]Value{fromItem(el.Key), fromItem(el.Value)}})
		}
		return listLit{vals}
	case stackitem.ArrayT, stackitem.StructT:
		arr := it.Value().([]stackitem.Item)
		vals := make([]Value, len(arr))
		for i := range arr {
			vals[i] = fromItem(arr[i])
		}
		return listLit{vals}
	}
	panic("fromItem " + it.Type().String())
}

func (w *World) target(contract string) util.Uint160 {
	if contract == "gas" {
		return w.nativeU(nativenames.Gas)
	}
	h, ok := w.hashes[contract]
	if !ok {
		panic("replay: contract " + contract + " is not deployed")
	}
	return h
}

// invoke sends one real transaction; returns (HALT?, result, fault message).
func (w *World) invoke(contract string, signerHashes [][]byte, method string, goArgs []any) (bool, Value, string) {
	signers := []neotest.Signer{w.payer}
	for _, b := range signerHashes {
		h, _ := util.Uint160DecodeBytesBE(b)
		acc, ok := w.accounts[h]
		if !ok {
			panic("replay: unknown signer account " + h.StringLE())
		}
		dup := false
		for _, s := range signers {
			if s.ScriptHash() == h {
				dup = true
			}
		}
		if !dup {
			signers = append(signers, acc)
		}
	}
	script, err := smartcontract.CreateCallScript(w.target(contract), method, goArgs...)
	if err != nil {
		panic(err)
	}
	aer := w.sendScript(script, signers)
	if aer.VMState != vmstate.Halt {
		return false, NullV{}, aer.FaultException
	}
	var res Value = NullV{}
	if len(aer.Stack) > 0 {
		res = fromItem(aer.Stack[0])
	}
	return true, res, ""
}

func (w *World) read(contract string, method string, goArgs []any) (ok bool, v Value) {
	defer func() {
		if r := recover(); r != nil {
			if _, isFail := r.(failNow); isFail {
				ok, v = false, NullV{}
				return
			}
			panic(r)
		}
	}()
	st, err := w.ex.NewInvoker(w.target(contract), w.payer).TestInvoke(w.t, method, goArgs...)
	if err != nil {
		return false, NullV{}
	}
	if st.Len() == 0 {
		return true, NullV{}
	}
	return true, fromItem(st.Pop().Item())
}

// events of the last transaction emitted by the named contract under the given name.
func (w *World) events(contract, name string) []Value {
	var out []Value
	if !w.lastHalted() {
		return nil
	}
	h := w.target(contract)
	for _, ev := range w.lastAer.Events {
		if ev.ScriptHash == h && ev.Name == name {
			out = append(out, fromItem(ev.Item))
		}
	}
	return out
}

// lastHalted: notifications are what an observer of the chain receives. neo-go keeps the notifications of a
// FAULTed execution in its application log, but its dispatcher delivers them to subscribers only for HALT
// (core/blockchain.go, notificationDispatcher): a faulted transaction has no observable notification.
func (w *World) lastHalted() bool {
	return w.lastAer != nil && w.lastAer.VMState == vmstate.Halt
}

func (w *World) eventCount() int {
	if !w.lastHalted() {
		return 0
	}
	return len(w.lastAer.Events)
}

// listLit is a list result coming from the VM; it is moved onto the engine heap by the caller.
type listLit struct{ e []Value }

// mineAfter adds an empty block whose timestamp is ms later than the current top block.
func (w *World) mineAfter(ms uint64) {
	b := w.ex.NewUnsignedBlock(w.t)
	b.Timestamp = w.ex.TopBlock(w.t).Timestamp + ms
	if err := w.ex.Chain.AddBlock(w.ex.SignBlock(b)); err != nil {
		panic(err)
	}
}

func (w *World) setIR(pubs [][]byte) {
	ks := make([]any, len(pubs))
	for i := range pubs {
		ks[i] = pubs[i]
	}
	w.ex.NewInvoker(w.nativeU(nativenames.Designation), w.uniq(w.validator, w.committee)...).Invoke(w.t, stackitem.Null{}, "designateAsRole", int64(16), ks) // 16 = NeoFSAlphabet
}

func (w *World) fundGas(to util.Uint160, amount *big.Int) {
	w.ex.ValidatorInvoker(w.nativeU(nativenames.Gas)).Invoke(w.t, true, "transfer",
		w.validator.ScriptHash(), to, amount, nil)
}

func (w *World) gasBalance(hashBE []byte) *big.Int {
	u, _ := util.Uint160DecodeBytesBE(hashBE)
	return w.ex.Chain.GetUtilityTokenBalance(u)
}

// dumpStorage: contents of every deployed (non-native) contract's storage.
func (w *World) dumpStorage() map[string]string {
	out := map[string]string{}
	for id := int32(1); id < 64; id++ {
		if _, err := w.ex.Chain.GetContractScriptHash(id); err != nil {
			break
		}
		w.ex.Chain.SeekStorage(id, nil, func(k, v []byte) bool {
			out[fmt.Sprintf("%d/%x", id, k)] = string(v)
			return true
		})
	}
	return out
}

// effects: did the last transaction change any contract storage or emit any notification (native token
// transfers emit Transfer events, so they count)?
func (w *World) effects() bool {
	if w.lastAer != nil && len(w.lastAer.Events) > 0 {
		return true
	}
	if len(w.preDump) != len(w.postDump) {
		return true
	}
	for k, v := range w.preDump {
		if pv, ok := w.postDump[k]; !ok || pv != v {
			return true
		}
	}
	return false
}

func (w *World) uniq(ss ...neotest.Signer) []neotest.Signer {
	var out []neotest.Signer
	for _, s := range ss {
		dup := false
		for _, o := range out {
			if o.ScriptHash() == s.ScriptHash() {
				dup = true
			}
		}
		if !dup {
			out = append(out, s)
		}
	}
	return out
}

// eventNames: "contract.Event" for every notification of the last transaction, in order.
func (w *World) eventNames() []string {
	var out []string
	if !w.lastHalted() {
		return nil
	}
	for _, ev := range w.lastAer.Events {
		c := "native"
		if ev.ScriptHash == w.nativeU(nativenames.Gas) {
			c = "gas"
		}
		for n, h := range w.hashes {
			if h == ev.ScriptHash {
				c = n
			}
		}
		out = append(out, c+"."+ev.Name)
	}
	return out
}

// oldVersionDir: a scratch copy of the working tree whose common.Version constant is v (the "deployed old
// release" of upgrade replays); removed when the world is closed.
func (w *World) oldVersionDir(v int64) string {
	if w.oldDirs == nil {
		w.oldDirs = map[int64]string{}
	}
	if d, ok := w.oldDirs[v]; ok {
		return d
	}
	d, err := os.MkdirTemp("", "neosym-oldver")
	if err != nil {
		panic(err)
	}
	w.t.cleanups = append(w.t.cleanups, func() { os.RemoveAll(d) })
	err = filepath.Walk(repoRoot, func(p string, info os.FileInfo, err error) error {
		if err != nil {
			return err
		}
		rel, _ := filepath.Rel(repoRoot, p)
		if info.IsDir() {
			if rel == ".git" {
				return filepath.SkipDir
			}
			return os.MkdirAll(filepath.Join(d, rel), 0755)
		}
		if !info.Mode().IsRegular() || info.Size() > 4<<20 {
			return nil
		}
		data, err := os.ReadFile(p)
		if err != nil {
			return err
		}
		if rel == filepath.Join("common", "version.go") {
			data = versionConstRe.ReplaceAll(data, []byte(fmt.Sprintf("Version = %d", v)))
		}
		return os.WriteFile(filepath.Join(d, rel), data, 0644)
	})
	if err != nil {
		panic(err)
	}
	w.oldDirs[v] = d
	return d
}

var versionConstRe = regexp.MustCompile(`Version = major\*1_000_000 \+ minor\*1_000 \+ patch`)

// deployOld deploys the named contract built from a copy of the tree whose version constant is v.
func (w *World) deployOld(name string, v int64, goArgs []any) {
	d := filepath.Join(w.oldVersionDir(v), "contracts", name)
	prev, had := w.srcDir[name]
	w.srcDir[name] = d
	defer func() {
		if had {
			w.srcDir[name] = prev
		} else {
			delete(w.srcDir, name)
		}
	}()
	w.deploy(name, goArgs)
}

// update sends the contract's update(nef, manifest, data) with the executable compiled from the working tree.
func (w *World) update(name string, signerHashes [][]byte, data []any) (bool, string) {
	c := w.compile(name)
	rawManifest, _ := jsonMarshal(c.Manifest)
	neb, _ := c.NEF.Bytes()
	var manifestArg any = rawManifest
	ok, _, fault := w.invoke(name, signerHashes, "update", []any{neb, manifestArg, data})
	return ok, fault
}

// storageCount: number of storage items of the named (deployed) contract.
func (w *World) storageCount(name string) int {
	cs := w.ex.Chain.GetContractState(w.target(name))
	if cs == nil {
		panic("replay: contract " + name + " is not deployed")
	}
	n := 0
	w.ex.Chain.SeekStorage(cs.ID, nil, func(k, v []byte) bool { n++; return true })
	return n
}


// ---- stand-in contracts: raw preset storage for upgrade replays ----

const standInSource = `package standin

import (
	"github.com/nspcc-dev/neo-go/pkg/interop/native/management"
	"github.com/nspcc-dev/neo-go/pkg/interop/storage"
)

// nolint:deadcode,unused
func _deploy(data any, isUpdate bool) {}

// PutRaw writes one raw storage item.
func PutRaw(key []byte, val any) {
	storage.Put(storage.GetContext(), key, val)
}

// Update replaces the stand-in by the real contract: its _deploy(data, true) runs on the preset storage.
func Update(nef []byte, manifest []byte, data any) {
	management.UpdateWithData(nef, manifest, data)
}
`

// deployStandIn deploys a contract with the real contract's NAME and an API to write raw storage items.
func (w *World) deployStandIn(name string) {
	dir, err := os.MkdirTemp("", "neosym-standin")
	if err != nil {
		panic(err)
	}
	w.t.cleanups = append(w.t.cleanups, func() { os.RemoveAll(dir) })
	eng := filepath.Join(verifRoot, "engine")
	gm, _ := os.ReadFile(filepath.Join(eng, "go.mod"))
	gm = []byte(strings.Replace(string(gm), "=> /repo", "=> "+repoRoot, 1))
	os.WriteFile(filepath.Join(dir, "go.mod"), gm, 0644)
	gs, _ := os.ReadFile(filepath.Join(eng, "go.sum"))
	os.WriteFile(filepath.Join(dir, "go.sum"), gs, 0644)
	pkg := filepath.Join(dir, "s")
	os.MkdirAll(pkg, 0755)
	os.WriteFile(filepath.Join(pkg, "contract.go"), []byte(standInSource), 0644)
	real := w.config(name)
	cfg := fmt.Sprintf("name: %q\npermissions:\n  - methods: [\"update\"]\n", real.Name)
	os.WriteFile(filepath.Join(pkg, "config.yml"), []byte(cfg), 0644)
	c := neotest.CompileFile(w.t, w.validator.ScriptHash(), pkg, filepath.Join(pkg, "config.yml"))
	if name != "nns" && w.nns == (util.Uint160{}) {
		w.deploy("nns", []any{[]any{[]any{"neofs", "ops@nspcc.io"}}})
	}
	if name != "nns" {
		inv := w.ex.NewInvoker(w.nns, w.uniq(w.validator, w.committee)...)
		inv.Invoke(w.t, true, "register", name+".neofs", w.committee.ScriptHash(), "ops@nspcc.ru", int64(3600), int64(600), int64(10*365*24*3600), int64(3600))
		inv.Invoke(w.t, nil, "addRecord", name+".neofs", 16, c.Hash.StringLE())
	}
	rawManifest, _ := jsonMarshal(c.Manifest)
	neb, _ := c.NEF.Bytes()
	script, err := smartcontract.CreateCallScript(w.ex.Chain.ManagementContractHash(), "deploy", neb, rawManifest, nil)
	if err != nil {
		panic(err)
	}
	aer := w.sendScript(script, w.uniq(w.validator, w.committee, w.alphabet))
	if aer.VMState != vmstate.Halt {
		panic(failNow{"deploy of the stand-in for " + name + " faulted: " + aer.FaultException})
	}
	w.hashes[name] = c.Hash
	if name == "nns" {
		w.nns = c.Hash
	}
}

func (w *World) putRaw(name string, key []byte, val any) {
	ok, _, fault := w.invoke(name, nil, "putRaw", []any{key, val})
	if !ok {
		panic(failNow{"putRaw into the stand-in for " + name + " faulted: " + fault})
	}
}

func (w *World) updateStandIn(name string, data []any) (bool, string) {
	c := w.compile(name)
	rawManifest, _ := jsonMarshal(c.Manifest)
	neb, _ := c.NEF.Bytes()
	var hs [][]byte
	for _, s := range w.uniq(w.committee, w.alphabet) {
		hs = append(hs, s.ScriptHash().BytesBE())
	}
	ok, _, fault := w.invoke(name, hs, "update", []any{neb, rawManifest, data})
	return ok, fault
}

// serialize: the VM's binary serialization of a value (what std.Serialize stores).
func (w *World) serialize(v any) []byte {
	b, err := stackitem.Serialize(stackitem.Make(v))
	if err != nil {
		panic(err)
	}
	return b
}
