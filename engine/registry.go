package main

// Harness registry: which harness functions decide which property, with which parameter tuples per tier.

type Harness struct {
	Prop     string
	Pkg      string   // directory under /verif/harness = the package the harness is overlaid into
	Func     string   // harness function
	Link     []string // contracts executed symbolically (hash/namespace order)
	Quick    [][]int  // parameter tuples (nil = one run without parameters)
	Thorough [][]int  // nil = same as Quick
	Unwind   int      // loop unwinding limit (default 16)
	Native   bool     // native-Go mode (package deploy): fixed-width integers, no package initialisers
	Bound    string   // stated bound of this harness (goes into the evidence)
}

func (h *Harness) unwind() int {
	if h.Unwind > 0 {
		return h.Unwind
	}
	return 16
}

// probe contracts shipped with the engine (name -> directory under engine/probe)
var probeContracts = map[string]string{"probe1": "subscriber1", "probe2": "subscriber2", "probe3": "puller", "probe4": "mininns"}

func findHarness(fn string) *Harness {
	for i := range registry {
		if registry[i].Func == fn {
			return &registry[i]
		}
	}
	return nil
}

var registry = []Harness{
	{Prop: "C01", Pkg: "balance", Func: "VerifC01Op", Link: []string{"netmap", "balance"},
		Quick:    [][]int{{0, 20, 20, 1}, {0, 0, 20, 1}, {0, 20, 19, 1}, {1, 20, 20, 1}, {2, 20, 20, 1}, {3, 20, 20, 1}, {4, 20, 20, 1}, {5, 20, 20, 1}, {1, 20, 20, 3}, {3, 20, 20, 6}},
		Thorough: [][]int{{0, 20, 20, 1}, {0, 0, 20, 1}, {0, 19, 20, 1}, {0, 21, 20, 1}, {0, 20, 0, 1}, {0, 20, 19, 1}, {0, 20, 21, 1}, {1, 20, 20, 1}, {2, 20, 20, 1}, {3, 20, 20, 1}, {4, 20, 20, 1}, {5, 20, 20, 1}, {1, 20, 20, 3}, {2, 20, 20, 3}, {3, 20, 20, 3}, {4, 20, 20, 3}, {5, 20, 20, 3}, {1, 20, 20, 6}, {3, 20, 20, 6}, {1, 20, 20, 4}, {1, 20, 20, 7}},
		Bound:    "state: mint(a0,x0) mint(a1,x1) lock(a0->lk,y,until), all amounts symbolic; then ONE operation (param 0: transfer/transferX/mint/burn/lock/newEpoch) with symbolic 20-byte (public transfer: also 0/19/21-byte) from/to free to alias any account, symbolic amount in Z (the epoch of newEpoch: -2^62 <= e < 2^62, it is turned into bytes), symbolic signer set {Alphabet,a0,a1}+stranger; committee size param3 (1; 3 and 6 for Alphabet operations, thorough also 4, 7); unwind 16"},
	{Prop: "C01", Pkg: "balance", Func: "VerifC09TwoOwners", Link: []string{"netmap", "balance"},
		Quick: [][]int{{0}},
		Bound: "the two-owner lock harness of C09 (two owners, one lock each up to the whole balance, one tick): supply = sum of balances afterwards; the forced witnesses with both owners locking everything until the same epoch are replayed on the VM"},
	{Prop: "C02", Pkg: "balance", Func: "VerifC01Op", Link: []string{"netmap", "balance"},
		Quick:    [][]int{{0, 20, 20, 1}, {0, 0, 20, 1}, {0, 20, 19, 1}, {1, 20, 20, 1}, {2, 20, 20, 1}, {3, 20, 20, 1}, {4, 20, 20, 1}, {5, 20, 20, 1}, {1, 20, 20, 3}, {3, 20, 20, 6}},
		Thorough: [][]int{{0, 20, 20, 1}, {0, 0, 20, 1}, {0, 19, 20, 1}, {0, 21, 20, 1}, {0, 20, 0, 1}, {0, 20, 19, 1}, {0, 20, 21, 1}, {1, 20, 20, 1}, {2, 20, 20, 1}, {3, 20, 20, 1}, {4, 20, 20, 1}, {5, 20, 20, 1}, {1, 20, 20, 3}, {2, 20, 20, 3}, {3, 20, 20, 3}, {4, 20, 20, 3}, {5, 20, 20, 3}, {1, 20, 20, 6}, {3, 20, 20, 6}, {1, 20, 20, 4}, {1, 20, 20, 7}},
		Bound:    "same scenario as C01 (one symbolic operation after mint,mint,lock); C02 assertions: a balance decreases only with the holder's witness (public transfer, from = holder) or the Alphabet's (Alphabet methods)"},
	{Prop: "C09", Pkg: "balance", Func: "VerifC09Locks", Link: []string{"netmap", "balance"},
		Quick: [][]int{{0}, {1}},
		Bound: "mint, two locks of one owner (amounts, until in -3..300 symbolic), optional burn of the first (0..y1), two ticks with symbolic epochs 1..300 (param: delivered directly / through the Netmap fan-out)"},
	{Prop: "C02", Pkg: "balance", Func: "VerifC02ThirdPartyContract", Link: []string{"netmap", "balance", "probe3"},
		Quick: [][]int{{0}, {1}, {2}},
		Bound: "the public transfer called BY A CONTRACT (probe 'puller') on behalf of a transaction signed by a stranger and, symbolically, the victim: from the victim to the calling contract itself, from the victim to a third account, from the contract's own funds (param0); balances 1..10^6 and the amount in Z symbolic"},
	{Prop: "C09", Pkg: "balance", Func: "VerifC09Chained", Link: []string{"netmap", "balance"},
		Quick: [][]int{{0, 0}, {0, 1}},
		Thorough: [][]int{{0, 0}, {0, 1}, {1, 0}, {1, 1}},
		Bound: "chained locks: an owner locks y1 on A, the Alphabet locks y2 <= y1 of A's funds on B (amounts, both until epochs 1..300 symbolic), one tick with a symbolic epoch (param0 = 1: through Netmap); param1 swaps the two lock addresses so the tick meets the inner lock before and after the outer one; supply = sum, supply unchanged, no negative balance, notifications reproduce the balances, an unexpired lock keeps its funds"},
	{Prop: "C01", Pkg: "balance", Func: "VerifC16MigrateBalance", Link: []string{"netmap", "balance"},
		Quick: [][]int{{0, 1}, {0, 2}, {1, 0}},
		Bound: "the legacy-storage upgrade harness of C16 (accounts under bare 20-byte hashes, eras [0.15.4,0.17.0) and [0.17.0,0.20.0), symbolic version and amounts): after the upgrade, after a transfer and after the ticks around the lock's epoch the supply equals the sum of the balances"},
	{Prop: "C01", Pkg: "balance", Func: "VerifC09Chained", Link: []string{"netmap", "balance"},
		Quick: [][]int{{0, 0}, {0, 1}},
		Bound: "the chained-lock harness of C09 (a lock whose source is a lock account, both lock-address orders, one tick): supply = sum of balances, no negative balance, the tick's notifications reproduce every balance"},
	{Prop: "C09", Pkg: "balance", Func: "VerifC09TopUp", Link: []string{"netmap", "balance"},
		Quick: [][]int{{0, 0}, {1, 1}, {0, 2}},
		Thorough: [][]int{{0, 0}, {0, 1}, {0, 2}, {1, 0}, {1, 1}, {1, 2}},
		Bound: "one lock (amount 0..balance, until 1..300 symbolic), then the LIVE lock account is credited with a symbolic amount (param1: public transfer by another holder / the Alphabet's transferX / a mint), two ticks with symbolic epochs (param0 = 1: through Netmap): the lock stays a lock and returns lock + credit exactly once"},
	{Prop: "C09", Pkg: "balance", Func: "VerifC09TwoOwners", Link: []string{"netmap", "balance"},
		Quick: [][]int{{0}, {1}},
		Bound: "two owners, one lock each (amounts up to the whole balance, until 1..300 symbolic), one tick with a symbolic epoch (param: delivered directly / through the Netmap fan-out); witnesses with both owners locking everything until the same epoch are forced and replayed on the VM"},
	{Prop: "C08", Pkg: "netmap", Func: "VerifC08Resize", Link: []string{"netmap"},
		Quick:    [][]int{{10, 3, 1, 6, 0}, {3, 4, 0, 6, 0}, {3, 5, 2, 6, 0}, {2, 3, 1, 6, 0}, {4, 2, 1, 6, 0}, {3, 5, 1, 6, 4}, {2, 4, 2, 6, 3}, {3, 4, 2, 6, 5}},
		Thorough: [][]int{{10, 3, 1, 12, 0}, {3, 4, 0, 12, 0}, {3, 5, 2, 12, 0}, {2, 3, 1, 12, 0}, {4, 2, 1, 12, 0}, {10, 11, 1, 12, 0}, {10, 12, 2, 12, 0}, {10, 13, 0, 12, 0}, {5, 7, 2, 12, 0}, {5, 9, 3, 12, 0}, {6, 6, 1, 12, 0}, {4, 9, 0, 12, 0}, {2, 1, 3, 12, 0}, {7, 14, 2, 12, 0}, {10, 0, 2, 12, 0}, {3, 5, 1, 12, 4}, {2, 4, 2, 12, 3}, {3, 4, 2, 12, 5}, {10, 12, 1, 12, 11}, {4, 6, 3, 12, 8}, {3, 3, 3, 12, 6}},
		Unwind: 40,
		Bound: "count c0 (param 0) set at epoch 0, t0 ticks (param 1), resize to symbolic count 0..param 3 (6 quick, 12 thorough), t1 ticks (param 2, plus one if 0); symbolic queries snapshot(d) d in -1..7, snapshotByEpoch(q), listNodes(q2); one node per published map carrying its epoch; param 4: the epoch whose map is published EMPTY (the node goes offline before that tick; 0: none), before or after the resize and after the ring wrapped"},
	{Prop: "C06", Pkg: "netmap", Func: "VerifC06Tick", Link: []string{"netmap", "balance", "probe1", "probe2"},
		Quick: [][]int{{0, 0, 1, 0, 0, 1}, {0, 0, 5, 0, 1, 0}, {0, 1, 6, 0, 1, 0}, {1, 0, 1, 1, 0, 0}, {0, 0, 1, 1, 0, 0}, {0, 0, 1, 0, 0, 0}, {1, 0, 1, 0, 0, 0}, {0, 1, 1, 0, 0, 0}, {0, 0, 5, 0, 0, 0}, {0, 0, 6, 0, 0, 0}}, Thorough: [][]int{{0, 0, 1, 0, 0, 1}, {1, 0, 1, 0, 1, 1}, {0, 0, 5, 0, 1, 0}, {0, 1, 6, 0, 1, 0}, {0, 0, 3, 0, 1, 0}, {0, 0, 7, 0, 1, 0}, {0, 0, 1, 0, 0, 0}, {1, 0, 1, 0, 0, 0}, {2, 0, 1, 0, 0, 0}, {3, 0, 1, 0, 0, 0}, {0, 1, 1, 0, 0, 0}, {1, 1, 1, 0, 0, 0}, {0, 0, 2, 0, 0, 0}, {0, 0, 3, 0, 0, 0}, {0, 0, 4, 0, 0, 0}, {0, 0, 5, 0, 0, 0}, {0, 0, 6, 0, 0, 0}, {0, 0, 7, 0, 0, 0}},
		Bound: "committee size param2 (1; 5 and 6 in quick, 2..7 in thorough) with the tick signed by a symbolic subset of {Alphabet 2n/3+1 account, committee n/2+1 account}; the two probe subscribers subscribe in the order given by param1 (both orders are run: one contradicts the order of the contract hashes), snapshot count param0 (0: the default 10; 1: the published list is the oldest kept), 3 legacy candidates (Online, Maintenance, Offline->removed), 1 structured, subscribers Balance+probe1+probe2 (probe1 subscribed twice), probe2 refuses one symbolic epoch; two newEpoch invocations with symbolic epochs -2..1000 and symbolic Alphabet signature; param5 = 1: epochs up to 2^32-1 (from 2^31 on a NeoVM integer takes five bytes); param4 = 1: a stand-alone Netmap (Balance, which checks the Alphabet witness itself when it is told the epoch, is not deployed); param3 = 1: every candidate goes offline between the two ticks, the second tick publishes empty maps (with snapshot count 1 into the slot that holds the first tick's list)"},
	{Prop: "C07", Pkg: "netmap", Func: "VerifC07Candidates", Link: []string{"netmap"},
		Quick: [][]int{{2, 0, 1}, {1, 1, 1}, {1, 2, 1}, {1, 0, 3}, {1, 0, 5}}, Thorough: [][]int{{3, 0, 1}, {2, 1, 1}, {2, 2, 1}, {1, 0, 2}, {1, 0, 3}, {1, 0, 4}, {1, 0, 5}, {1, 0, 6}, {1, 0, 7}},
		Bound: "committee size param2 (1; 3 and 5 in quick, 2..7 in thorough: one size from every residue class modulo 3, where threshold slips hide), fixture param1 (0: empty; 1/2: n0 held by both lists in different states), then k (param0) consecutive operations, each with symbolic method (addPeer/addPeerIR/addNode/updateState/updateStateIR/deleteNode), symbolic target in the pool {n0,n1}, symbolic state in Z, symbolic Alphabet and node signatures; reference model tracks n0"},
	{Prop: "C08", Pkg: "netmap", Func: "VerifC08Sequence", Link: []string{"netmap"}, Unwind: 60,
		Quick:    [][]int{{3, 104, 2, 206, 2, 0, 0, 0}, {12, 204, 3, 106, 1, 0, 0, 0}, {4, 206, 1, 0, 0, 0, 0, 0}, {7, 103, 206, 0, 0, 0, 0, 0}, {9, 102, 205, 1, 0, 0, 0, 0}, {17, 103, 106, 2, 0, 0, 0, 0}, {15, 113, 114, 0, 0, 0, 0, 0}, {15, 113, 1, 114, 0, 0, 0, 0}},
		Thorough: [][]int{{15, 113, 114, 0, 0, 0, 0, 0}, {15, 113, 1, 114, 0, 0, 0, 0}, {12, 112, 213, 0, 0, 0, 0, 0}, {7, 103, 206, 0, 0, 0, 0, 0}, {9, 102, 205, 1, 0, 0, 0, 0}, {17, 103, 106, 2, 0, 0, 0, 0}, {8, 104, 212, 0, 0, 0, 0, 0}, {6, 203, 206, 0, 0, 0, 0, 0}, {3, 104, 2, 206, 2, 0, 0, 0}, {12, 204, 3, 106, 1, 0, 0, 0}, {4, 206, 1, 0, 0, 0, 0, 0}, {2, 113, 1, 112, 1, 0, 0, 0}, {2, 113, 4, 206, 2, 0, 0, 0}, {5, 203, 2, 205, 3, 0, 0, 0}, {11, 103, 2, 212, 2, 0, 0, 0}, {3, 102, 3, 104, 3, 206, 2, 0}},
		Bound:    "ANY sequence of steps given by the params (n ticks / a resize to a concrete count / a resize to a symbolic count 1..m; up to three resizes, up to 20 epochs) from the default count 10, against a per-epoch reference model; a resize the contract refuses (including one that faults) must change nothing; symbolic queries snapshot(d), snapshotByEpoch(q), listNodes(q2) at the end; among the sequences: a shrink while the ring index is at least twice the new count, followed at once by a grow (leftover slots of the shrink come back inside the ring), and two grows in a row after the ring has wrapped (the second one has to move a slot the first one left empty: the unchanged tree refuses it)"},
	{Prop: "C17", Unwind: 64, Pkg: "neofs", Func: "VerifC17Ballots", Link: []string{"neofs", "processing"},
		Quick:    [][]int{{0, 1, 3, 0}, {0, 3, 4, 0}, {0, 4, 4, 0}, {1, 4, 4, 0}, {2, 4, 3, 0}, {3, 4, 3, 0}, {0, 2, 4, 0}, {1, 2, 4, 0}, {2, 2, 4, 0}, {3, 2, 4, 0}, {3, 2, 3, 2}, {3, 2, 4, 2}},
		Thorough: [][]int{{0, 1, 4, 0}, {0, 2, 4, 0}, {0, 3, 5, 0}, {0, 4, 5, 0}, {0, 5, 5, 0}, {0, 6, 5, 0}, {0, 7, 5, 0}, {1, 2, 4, 0}, {1, 3, 4, 0}, {1, 4, 5, 0}, {1, 7, 5, 0}, {2, 2, 4, 0}, {2, 3, 4, 0}, {2, 4, 4, 0}, {2, 7, 5, 0}, {3, 2, 4, 0}, {3, 3, 4, 0}, {3, 4, 4, 0}, {3, 7, 5, 0}},
		Bound:    "NeoFS contract without Notary, n stored Alphabet keys (param 1), k invocations (param 2) of one method (param 0: setConfig/cheque/alphabetUpdate/innerRingCandidateRemove), each by a symbolic caller (member 0..n-1 or a stranger) for one of two decision ids after a symbolic gap of 0..25 blocks; reference model: live-ballot reading (DESIGN.md C17); n = 2 with k = 4 is the smallest setting in which one ballot stays pending while another fires and is then voted for again; after a candidate removal fired the history goes on with the other candidate; param 3 = r: candidate B registers only before step r, so a removal round can finish for a key that is not a candidate yet"},
	{Prop: "C17", Unwind: 64, Pkg: "neofs", Func: "VerifC17ShrunkAlphabet", Link: []string{"neofs", "processing"},
		Bound: "NeoFS without Notary, three stored keys: two votes for configuration ballot A and one for ballot B by symbolic members, then all three vote the Alphabet down to its first two keys (threshold 3 -> 2), then four more invocations by symbolic callers (A, A with another value, B, B with another value; the dropped key is refused); all within 20 blocks; the two configuration values against a model after every invocation"},
	{Prop: "C19", Unwind: 64, Pkg: "neofs", Func: "VerifC17Ballots", Link: []string{"neofs", "processing"},
		Quick:    [][]int{{1, 2, 4, 0}},
		Thorough: [][]int{{1, 2, 4, 0}, {1, 3, 4, 0}, {1, 4, 5, 0}},
		Bound:    "the ballot harness of C17 for the cheque method (param 0 = 1): n stored Alphabet keys (param 1), k invocations (param 2) for one of two cheque ids; after every invocation the GAS balances of the payee and of the contract equal 7 GAS per cheque the model says was approved: a cheque is paid exactly once"},
	{Prop: "C14", Pkg: "container", Func: "VerifC14Roster", Link: []string{"nns", "netmap", "balance", "neofsid", "container"},
		Quick: [][]int{{2, 1, 1, 1}, {0, 0, 1, 1}, {1, 0, 2, 1}, {1, 0, 1, 5}, {1, 0, 1, 6}}, Thorough: [][]int{{2, 1, 1, 1}, {0, 0, 1, 1}, {1, 0, 2, 1}, {3, 2, 3, 1}, {1, 3, 0, 1}, {1, 0, 1, 2}, {1, 0, 1, 3}, {1, 0, 1, 4}, {1, 0, 1, 5}, {1, 0, 1, 6}, {1, 0, 1, 7}},
		Bound: "committee size param3 (1; 5 and 6 in quick, 2..7 in thorough), batches of symbolic 33-byte keys of sizes (param0,param1) for vector 0 and param2 for vector 1, commit with symbolic REPs 0..255, second round with one batch, empty commit"},
	{Prop: "C14", Pkg: "container", Func: "VerifC14Interleaved", Link: []string{"nns", "netmap", "balance", "neofsid", "container"},
		Quick:    [][]int{{0, 1, 0, 0, 9, 9}, {0, 1, 1, 0, 9, 9}, {0, 1, 8, 0, 9, 9}, {0, 8, 8, 1, 0, 9}},
		Thorough: [][]int{{0, 1, 8, 0, 9, 9}, {0, 8, 8, 1, 0, 9}, {8, 0, 8, 1, 8, 1}, {0, 1, 0, 0, 9, 9}, {0, 1, 1, 0, 9, 9}, {0, 1, 2, 0, 1, 0}, {0, 0, 1, 0, 1, 9}, {0, 1, 0, 1, 0, 9}},
		Bound:    "batches of two symbolic keys each for the vectors given by the params, in that order within one epoch (a lower vector revisited after a higher one was started), one commit: every vector holds its own batches in submission order; step 8 = an epoch tick delivered by Netmap in the middle of the roster update (the pending roster must survive it)"},
	{Prop: "C14", Pkg: "container", Func: "VerifC14SecondEpoch", Link: []string{"nns", "netmap", "balance", "neofsid", "container"},
		Quick: [][]int{{0}, {1}},
		Bound: "vectors 0 and 1 committed; the next epoch starts with a batch for vector 1 while nothing is pending for vector 0 (param0 = 1: batches for vectors 0 and 1 follow), commit, then a third epoch with one batch for vector 0: what was accepted is the roster, in order, and every commit empties the pending roster"},
	{Prop: "C14", Pkg: "container", Func: "VerifC14Counter", Link: []string{"container"},
		Bound: "kernel counterToBytes/counterFromBytes for every counter 1..32767 (two symbolic counters): two bytes, order preserving, round trip"},
	{Prop: "C14", Pkg: "container", Func: "VerifC14Signatures", Link: []string{"nns", "netmap", "balance", "neofsid", "container"},
		Quick: [][]int{{1, 2, 1, 0}, {1, 3, 1, 0}, {2, 2, 2, 0}, {2, 2, 1, 0}, {1, 2, 0, 0}, {1, 2, 1, 1}, {1, 3, 1, 1}}, Thorough: [][]int{{1, 1, 1, 0}, {1, 2, 1, 0}, {1, 3, 1, 0}, {2, 2, 2, 0}, {2, 2, 1, 0}, {1, 2, 0, 0}, {2, 1, 2, 0}, {1, 2, 1, 1}, {1, 3, 1, 1}, {2, 2, 2, 1}},
		Bound: "vector 0 = {m0,m1} (param 3 = 1: a second batch lists m0 again, one key at two roster positions), optional vector 1 = {m2}; REPs symbolic 0..4; per row up to 3 (resp. 2) signature tokens, each with symbolic signer (member 0..2 / outsider) and made for the message or for another one; rows handed in = param 2"},
	{Prop: "C20", Pkg: "reputation", Func: "VerifC20Reputation", Link: []string{"reputation"},
		Quick: [][]int{{1, 1, 1}, {2, 1, 1}, {0, 1, 1}, {1, 2, 2}, {2, 2, 1}, {1, 1, 0}, {3, 2, 1}, {1, 4, 4}}, Thorough: allTriples(5),
		Bound: "two puts (epochs symbolic inside the encoding length classes given by params 0,1: 0 / 1..127 / 128..32767 / ..8388607 / ..2^31-1; 33-byte symbolic peers, 3-byte values), queries listByEpoch(q), get(q,peer1) with symbolic q of class param 2"},
	{Prop: "C20", Pkg: "netmap", Func: "VerifC20NetmapConfig", Link: []string{"netmap"},
		Quick: [][]int{{1, 2, 1}, {2, 2, 2}, {0, 1, 0}, {6, 2, 6}, {1, 1, 2}}, Thorough: [][]int{{1, 2, 1}, {2, 2, 2}, {0, 1, 0}, {6, 2, 6}, {1, 1, 2}, {0, 0, 0}, {2, 6, 2}, {6, 6, 6}, {1, 6, 1}, {2, 1, 2}},
		Bound: "two setConfig with fully symbolic keys of lengths (param0,param1) from {0,1,2,6} and 2-byte values; config(kq) with symbolic key of length param2; listConfig"},
	{Prop: "C20", Pkg: "neofs", Func: "VerifC20NeoFSConfig", Link: []string{"neofs", "processing"},
		Quick: [][]int{{1, 2, 1}, {2, 2, 2}, {0, 1, 0}, {6, 2, 6}}, Thorough: [][]int{{1, 2, 1}, {2, 2, 2}, {0, 1, 0}, {6, 2, 6}, {1, 1, 2}, {0, 0, 0}, {2, 6, 2}, {6, 6, 6}, {11, 11, 11}, {21, 2, 21}},
		Bound: "NeoFS contract with Notary; two setConfig with fully symbolic keys of lengths (param0,param1) and 2-byte values; config(kq); listConfig (plus the two keys configured at deployment)"},
	{Prop: "C20", Pkg: "neofs", Func: "VerifC20NeoFSVotedConfig", Link: []string{"neofs", "processing"},
		Quick: [][]int{{4}}, Thorough: [][]int{{1}, {4}, {7}},
		Bound: "NeoFS contract without Notary, param0 Alphabet nodes (4; 1, 4, 7 in thorough): 2n/3+1 nodes vote a symbolic 2-byte value in under one id, then one symbolic node re-uses the id with a different value after 0..25 blocks; config and listConfig after each stage"},
	{Prop: "C20", Pkg: "audit", Func: "VerifC20Audit", Link: []string{"audit"},
		Quick: [][]int{{1, 1, 1}, {2, 1, 1}, {0, 1, 1}, {1, 2, 2}, {3, 2, 2}}, Thorough: allTriples(4),
		Bound: "two audit results put by two Inner Ring members: well-formed V2 header (version length 0), epoch = two symbolic low bytes (classes given by params: 0 / 1..127 / 128..32767 / 32768..65535), symbolic 32-byte container ids; list, get, listByEpoch/CID/Node with symbolic query epoch"},
	{Prop: "C20", Pkg: "container", Func: "VerifC20Estimations", Link: []string{"nns", "netmap", "balance", "neofsid", "container"},
		Quick: [][]int{{1, 1, 1}, {2, 1, 1}, {2, 2, 2}}, Thorough: [][]int{{1, 1, 1}, {2, 1, 1}, {1, 2, 2}, {2, 2, 2}, {1, 2, 1}},
		Bound: "five linked contracts, one container, one storage node of the previous epoch's map; two putContainerSize with symbolic epochs (classes 1..127 / 128..32767 by params) and sizes, three refused attempts, iterateContainerSizes for a symbolic epoch, one tick with a symbolic epoch 3..32767 and its clean-up"},
	{Prop: "C20", Pkg: "container", Func: "VerifC20EstimationsAfterResize", Link: []string{"nns", "netmap", "balance", "neofsid", "container"},
		Bound: "three storage nodes (one in the map of epoch 1 only, one in every map, one from epoch 2 on), the snapshot count set to a symbolic 2..4 at epoch 2 (ring index 2), a tick to epoch 3, then putContainerSize by each of them and by an outsider: accepted exactly from the nodes of the map of epoch 2"},
	{Prop: "C20", Unwind: 60, Pkg: "container", Func: "VerifC20EstimationSeries", Link: []string{"nns", "netmap", "balance", "neofsid", "container"},
		Quick: [][]int{{3}, {4}},
		Bound: "one container, one storage node, param0 (3, 4) announcements with symbolic epochs 1..127 in any order (repetitions included) and symbolic sizes, against a model (an announcement removes the node's estimations more than 3 epochs older and overwrites the one of its epoch); all announced epochs read back after every announcement, every announcement required to be accepted; then one tick with a symbolic epoch 3..140"},
	{Prop: "C20", Pkg: "container", Func: "VerifC20EstimationIDs", Link: []string{"nns", "netmap", "balance", "neofsid", "container"},
		Quick: [][]int{{0}, {1}, {2}},
		Bound: "one container, one storage node, ONE estimation with a symbolic epoch (param0: exactly 0 - empty encoding / 1..127 / 128..32767) and size; listContainerSizes, getContainerSize by the listed id, iterateContainerSizes, iterateAllContainerSizes"},
	{Prop: "C20", Pkg: "neofsid", Func: "VerifC20NeoFSID", Link: []string{"neofsid"},
		Bound: "addKey(o1,[k1,k2]) addKey(o2,[k3]) removeKey(o3,[k4]) with symbolic 25-byte owners and 33-byte keys free to coincide; key(oq) for symbolic oq"},
	{Prop: "C18", Unwind: 300, Pkg: "nns", Func: "VerifC18IPv4Shape", Link: []string{"nns"},
		Quick:    [][]int{{1, 1, 1, 1}, {2, 1, 1, 1}, {3, 3, 3, 3}, {3, 1, 1, 3}, {1, 2, 3, 1}, {3, 2, 1, 2}, {1, 1, 1, 2}, {4, 1, 1, 1}, {0, 1, 1, 1}, {1, 1, 1, 0}},
		Thorough: ipv4Shapes(),
		Bound:    "A record data = four dot-free groups of the lengths given by the params (quick: 10 shapes, thorough: all 81 shapes with group lengths 1..3 plus 5 malformed ones), every byte fully symbolic; through nns.addRecord by the owner of a registered name"},
	{Prop: "C18", Unwind: 300, Pkg: "nns", Func: "VerifC18IPv4Free", Link: []string{"nns"},
		Quick: [][]int{{6}, {7}}, Thorough: [][]int{{6}, {7}, {8}, {9}, {16}},
		Bound: "A record data = every string of the length given by the param (all bytes symbolic, dots anywhere)"},
	{Prop: "C18", Unwind: 300, Pkg: "nns", Func: "VerifC18IPv6Shape", Link: []string{"nns"},
		Quick:    [][]int{{1, 4, 3, 9, 1, 0}, {1, 4, 4, 9, 1, 0}, {1, 4, 9, 1, 0}, {1, 4, 9, 0}, {0, 9, 1, 0}, {1, 4, 1, 1, 1, 1, 1, 1, 1, 0}, {1, 4, 4, 4, 4, 4, 4, 4, 4, 0}, {0, 4, 1, 1, 0}, {0, 4, 5, 9, 1, 0}, {1, 4, 2, 9, 2, 1, 0}, {1, 4, 1, 1, 1, 1, 1, 1, 9, 0}, {1, 4, 9, 3, 1, 1, 1, 1, 1, 0}, {0, 9, 4, 1, 1, 1, 1, 1, 1, 0}, {1, 4, 4, 9, 1, 1, 1, 1, 1, 0}, {0, 4, 1, 1, 1, 1, 1, 1, 1, 8}, {0, 8, 4, 1, 1, 1, 1, 1, 1, 1}, {0, 4, 9, 1, 1, 1, 1, 1, 1, 8}, {0, 4, 1, 1, 1, 1, 1, 9, 1, 8}, {0, 4, 1, 8, 0}, {0, 8, 4, 9, 1, 0}, {0, 4, 1, 1, 1, 1, 1, 1, 1, 1}},
		Thorough: [][]int{{0, 4, 1, 1, 1, 1, 1, 1, 1, 8}, {0, 8, 4, 1, 1, 1, 1, 1, 1, 1}, {0, 4, 9, 1, 1, 1, 1, 1, 1, 8}, {0, 4, 1, 1, 1, 1, 1, 9, 1, 8}, {0, 4, 1, 8, 0}, {0, 8, 4, 9, 1, 0}, {0, 4, 1, 1, 1, 1, 1, 1, 1, 1}, {0, 4, 1, 1, 1, 1, 1, 9, 8, 0}, {0, 8, 9, 1, 0}, {1, 4, 9, 3, 1, 1, 1, 1, 1, 0}, {0, 9, 4, 1, 1, 1, 1, 1, 1, 0}, {1, 4, 4, 9, 1, 1, 1, 1, 1, 0}, {1, 4, 1, 1, 9, 1, 1, 1, 1, 0}, {1, 4, 1, 1, 1, 9, 1, 1, 1, 0}, {1, 4, 1, 1, 1, 1, 9, 1, 1, 0}, {1, 4, 1, 1, 1, 1, 1, 9, 1, 0}, {1, 4, 9, 4, 4, 0}, {1, 4, 9, 4, 4, 4, 0}, {1, 4, 3, 9, 1, 0}, {1, 4, 4, 9, 1, 0}, {1, 4, 9, 1, 0}, {1, 4, 9, 0}, {0, 9, 1, 0}, {1, 4, 1, 1, 1, 1, 1, 1, 1, 0}, {1, 4, 4, 4, 4, 4, 4, 4, 4, 0}, {0, 4, 1, 1, 0}, {0, 4, 5, 9, 1, 0}, {1, 4, 2, 9, 2, 1, 0}, {1, 4, 1, 9, 0}, {1, 4, 2, 9, 0}, {1, 4, 3, 9, 0}, {1, 4, 4, 9, 0}, {0, 3, 4, 9, 1, 0}, {1, 4, 1, 1, 1, 1, 1, 1, 9, 0}, {0, 4, 1, 1, 1, 1, 1, 1, 1, 1}, {0, 4, 1, 1, 1, 1, 1, 1, 9, 1}, {0, 4, 9, 1, 9, 1, 0}, {1, 4, 3, 3, 9, 4, 0}},
		Bound:    "AAAA record data = colon-free groups of the lengths given by the params (9 = the '::' gap, 8 = a lone leading or trailing colon: eight groups and a colon, a gap and a trailing colon at nine fragments, nine groups), every byte fully symbolic; the gap standing for exactly one zero group is tried in positions 0, 1, 2 and 7 (thorough: all eight), so that a group written after the gap lands in each of the eight words"},
	{Prop: "C18", Unwind: 300, Pkg: "nns", Func: "VerifC18IPv6Free", Link: []string{"nns"},
		Quick: [][]int{{1}, {5}, {6}}, Thorough: [][]int{{1}, {2}, {5}, {6}, {7}, {8}, {40}},
		Bound: "AAAA record data = every string of the length given by the param (all bytes symbolic)"},
	{Prop: "C18", Unwind: 300, Pkg: "nns", Func: "VerifC18TXT", Link: []string{"nns"},
		Quick: [][]int{{0}, {1}, {255}, {256}},
		Bound: "TXT data of lengths 0, 1, 255, 256, all bytes symbolic"},
	{Prop: "C18", Unwind: 300, Pkg: "nns", Func: "VerifC18CNAMEShape", Link: []string{"nns"},
		Quick: [][]int{{1, 1, 3, 0}, {1, 2, 2, 3, 0}, {1, 63, 3, 0}, {0, 64, 3, 0}, {1, 1, 16, 0}, {0, 1, 17, 0}, {1, 1, 1, 0}, {0, 2, 0}, {1, 3, 0}, {0, 99, 3, 0}},
		Bound: "CNAME data = dot-free labels of the lengths given by the params (99 = empty label), every byte symbolic"},
	{Prop: "C18", Unwind: 300, Pkg: "nns", Func: "VerifC18NameFree", Link: []string{"nns"},
		Quick: [][]int{{1}, {3}, {5}}, Thorough: [][]int{{1}, {2}, {3}, {4}, {5}, {6}, {7}, {8}},
		Bound: "isAvailable(s+'.com') for every string s of the length given by the param (all bytes symbolic, dots anywhere)"},
	{Prop: "C18", Unwind: 300, Pkg: "nns", Func: "VerifC18NameShape", Link: []string{"nns"},
		Quick:    [][]int{{1, 1, 0}, {1, 2, 0}, {1, 63, 0}, {0, 64, 0}, {1, 3, 2, 0}, {0, 99, 0}, {0, 1, 99, 1, 0}},
		Thorough: [][]int{{1, 1, 0}, {1, 2, 0}, {1, 16, 0}, {1, 17, 0}, {1, 63, 0}, {0, 64, 0}, {1, 3, 2, 0}, {0, 99, 0}, {0, 1, 99, 1, 0}, {1, 63, 63, 63, 58, 0}, {1, 63, 63, 63, 59, 0}, {0, 63, 63, 63, 60, 0}},
		Bound:    "isAvailable and (single label) register of labels of the lengths given by the params + '.com', every byte symbolic; totals 255/256 in the thorough tier"},
	{Prop: "C18", Unwind: 300, Pkg: "nns", Func: "VerifC18TLD", Link: []string{"nns"},
		Quick: [][]int{{1, 0}, {2, 0}, {3, 0}, {4, 0}, {16, 0}, {17, 0}, {2, 1}, {3, 1}, {4, 1}},
		Bound: "isAvailable(s) and registerTLD(s) by the committee for every dot-free string s of the length given by param0, on an NNS without TLDs (param1 = 0) or with the TLDs com, ab-cd and c-d already registered (param1 = 1: validity must not depend on the registered roots; proper prefixes of the hyphenated ones are not valid labels)"},
	{Prop: "C19", Pkg: "neofs", Func: "VerifC19Deposit", Link: []string{"neofs", "processing"},
		Quick: [][]int{{1, 0}, {1, 20}, {1, 7}, {0, 20}, {1, 2}}, Thorough: [][]int{{1, 0}, {1, 20}, {1, 7}, {0, 20}, {0, 0}, {1, 2}, {1, 19}, {1, 21}, {0, 7}},
		Bound: "one GAS transfer user->NeoFS with symbolic amount in Z, symbolic funds 0..20000 GAS, symbolic user witness, receiver data of length param 1 (all bytes symbolic); param 0: Notary mode; plus one direct call of onNEP17Payment"},
	{Prop: "C19", Pkg: "neofs", Func: "VerifC19Accounting", Link: []string{"neofs", "processing"},
		Quick: [][]int{{1, 1}, {0, 1}, {0, 3}}, Thorough: [][]int{{1, 1}, {1, 4}, {0, 1}, {0, 3}, {0, 4}, {0, 7}},
		Bound: "deposit, withdraw request, candidate registration, cheque with symbolic amounts/fees/funds/witnesses; param 0: Notary mode, param 1: number of stored Alphabet keys (the cheque is asserted with Notary or one key)"},
	{Prop: "C19", Pkg: "alphabet", Func: "VerifC19Emit", Link: []string{"alphabet", "proxy", "netmap"},
		Quick: [][]int{{1, 3, 0, 0, 0, 1}, {4, 3, 2, 0, 0, 1}, {1, 1, 0, 0, 0, 0}, {1, 3, 0, 0, 0, 0}, {4, 3, 2, 0, 0, 0}, {4, 7, 0, 0, 0, 0}, {1, 3, 0, 1, 0, 0}, {1, 1, 1, 0, 2, 0}, {4, 3, 5, 0, 7, 0}}, Thorough: [][]int{{1, 1, 1, 0, 2, 0}, {4, 3, 5, 0, 7, 0}, {4, 3, 4, 0, 7, 0}, {1, 1, 0, 0, 0, 0}, {1, 2, 0, 0, 0, 0}, {1, 3, 0, 0, 0, 0}, {4, 3, 2, 0, 0, 0}, {4, 7, 0, 0, 0, 0}, {7, 5, 6, 0, 0, 0}, {7, 4, 3, 0, 0, 0}, {4, 6, 1, 0, 0, 0}, {1, 1, 0, 1, 0, 0}, {1, 3, 0, 1, 0, 0}, {4, 3, 2, 1, 0, 0}},
		Bound: "committee size param 0, Inner Ring size param 1, Alphabet contract index param 2; param 3 = 1: the Inner Ring is re-designated to a disjoint list in the block right before the emission; param 5 = 1: a mixed deployment (Netmap address resolved through NNS, Proxy address explicit and different from the contract NNS names proxy: the explicit one is paid); param 4 (if given) = the number of Alphabet contracts recorded at deployment when it exceeds the committee size: a contract whose index is not below the committee size has no node of its own and must refuse everybody; contract balance g symbolic 0..10^12; invoker symbolic (any committee member or a stranger); native GAS ledger stub (DESIGN.md 2.3)"},
	{Prop: "C19", Pkg: "alphabet", Func: "VerifC19Payments", Link: []string{"alphabet", "proxy", "processing", "neofs"},
		Bound: "GAS transfers of a symbolic amount 0..1000 to Proxy, Processing and Alphabet; direct calls of their onNEP17Payment"},
	{Prop: "C13", Pkg: "deploy", Func: "VerifC13DivideFunds", Native: true, Unwind: 20,
		Quick: [][]int{{1}, {2}, {3}, {7}}, Thorough: [][]int{{1}, {2}, {3}, {4}, {5}, {6}, {7}, {8}, {9}, {10}, {11}, {12}, {13}, {14}, {15}, {16}},
		Bound: "native-Go mode (fixed-width integers): divideFundsEvenly for n = param receivers and every 64-bit amount"},
	{Prop: "C13", Pkg: "deploy", Func: "VerifC13Codec", Native: true,
		Quick: [][]int{{0}, {5}}, Thorough: [][]int{{0}, {1}, {5}, {32}},
		Bound: "native-Go mode: sharedTransactionData for every value (20 symbolic sender bytes, every 32-bit validUntilBlock and nonce): layout, base64 round trip, checksum prefix round trip with a symbolic payload of param0 bytes, refusal of a 3-byte input; base64 and SHA-256 are environment (an encode/decode box; an injective function), binary.BigEndian by its definition"},
	{Prop: "C13", Pkg: "deploy", Func: "VerifC13TxWindow", Native: true,
		Bound: "native-Go mode: neoFSRuntimeTransactionModifier for every 32-bit height (two symbolic heights) and both invocation outcomes; actor.DefaultCheckerModifier stubbed by its documented contract (error iff state != HALT)"},
	{Prop: "C16", Pkg: "proxy", Func: "VerifC16Gate", Link: []string{"alphabet", "audit", "balance", "container", "neofs", "neofsid", "netmap", "nns", "processing", "proxy", "reputation"},
		Quick:    [][]int{{0, 1}, {1, 7}, {2, 7}, {3, 1}, {4, 1}, {5, 1}, {6, 7}, {7, 7}, {8, 1}, {9, 7}, {10, 1}},
		Thorough: [][]int{{0, 1}, {1, 1}, {2, 1}, {3, 1}, {4, 1}, {5, 1}, {6, 1}, {7, 1}, {8, 1}, {9, 1}, {10, 1}, {0, 4}, {1, 4}, {2, 4}, {3, 4}, {5, 4}, {6, 4}, {7, 4}, {9, 4}, {10, 4}, {2, 7}, {6, 7}, {7, 7}},
		Bound:    "contract #param0 of the 11 freshly deployed (post-deploy storage) as a release reporting a SYMBOLIC version v in Z, committee size param1, update with symbolic presence of the committee-majority, Alphabet and Inner-Ring-majority accounts; the replay builds the old release from a scratch copy of the tree with the version constant set to v"},
	{Prop: "C05", Pkg: "container", Func: "VerifC05Fee", Link: []string{"nns", "netmap", "balance", "neofsid", "container"},
		Quick:    [][]int{{1, 0, 0}, {4, 4, 0}, {7, 7, 0}, {1, 4, 1}, {4, 0, 1}, {4, 4, 2}, {4, 0, 3}, {1, 0, 3}},
		Thorough: [][]int{{1, 0, 0}, {1, 4, 0}, {1, 7, 0}, {4, 0, 0}, {4, 4, 0}, {4, 7, 0}, {7, 0, 0}, {7, 4, 0}, {7, 7, 0}, {1, 0, 1}, {1, 4, 1}, {4, 0, 1}, {4, 7, 1}, {7, 4, 1}, {1, 0, 2}, {4, 4, 2}, {7, 7, 2}, {1, 0, 3}, {4, 0, 3}, {7, 4, 3}},
		Bound:    "five linked contracts; committee size param0 in {1,4,7}; V2 blob with version-field length param1 in {0,4,7} and every other byte symbolic; fees (0 included), owner balance symbolic; symbolic Alphabet signature; param2: 1 = named container (alias fee, NNS registration), 2 = named with a domain registered in advance by the committee, 3 = the owner is the first Alphabet node itself (one fee leg is a self-transfer); then the fee is changed and a second container is put"},
	{Prop: "C04", Unwind: 300, Pkg: "container", Func: "VerifC04ForeignNNS", Link: []string{"nns", "netmap", "balance", "neofsid", "container", "probe4"},
		Bound: "the system NNS is contract 1, Container is deployed with the address of ANOTHER name service (probe contract mininns) for container names: putNamed, delete, putNamed of another container under the same name; the alias record lives and dies in the configured service"},
	{Prop: "C04", Pkg: "container", Func: "VerifC04PrefixID", Link: []string{"nns", "netmap", "balance", "neofsid", "container"},
		Quick: [][]int{{31}, {20}, {1}, {0}},
		Bound: "one live container (symbolic blob); an id that is the first param0 bytes (31, 20, 1, 0) of its id: get / owner / eACL report not found, delete emits nothing and leaves the storage as it is, the live container stays"},
	{Prop: "C04", Unwind: 300, Pkg: "container", Func: "VerifC04ExpiredAlias", Link: []string{"nns", "netmap", "balance", "neofsid", "container"},
		Bound: "a container put under a name whose domain the committee registered with a symbolic lifetime 1..1000 s, a symbolic time span 1..1.1*10^6 ms, then delete: successful whether or not the domain has lapsed, complete (getters, count, alias, one DeleteSuccess) and final (the blob is refused afterwards, plain and named)"},
	{Prop: "C04", Pkg: "container", Func: "VerifC04Registry", Link: []string{"nns", "netmap", "balance", "neofsid", "container"},
		Quick:    [][]int{{2, 0, 0, 3}, {2, 4, 2, 3}, {2, 0, 0, 4}, {2, 7, 3, 0}, {2, 0, 2, 2}, {2, 4, 1, 3}, {2, 0, 4, 3}, {2, 0, 0, 0}, {2, 4, 0, 2}, {2, 0, 2, 0}, {2, 0, 3, 3}, {2, 0, 2, 4}, {3, 0, 0, 4, 3}, {3, 4, 0, 3, 0}, {3, 0, 1, 3, 1}, {3, 4, 2, 3, 2}, {3, 100, 0, 4, 3}, {2, 100, 0, 3}, {3, 0, 0, 4, 0}},
		Thorough: c04Thorough(),
		Bound: "param0 consecutive symbolic operations (put, put with meta flag, putNamed with one shared name, delete, setEACL; symbolic target among two pool containers and a foreign id; symbolic Alphabet signature); blobs with version-field length param1 (+100: blobs that END with the owner ID, 31 bytes for an empty version field) and all other bytes symbolic, second owner symbolic (same or other); after each operation get/owner/eACL/alias/count/list/containersOf and the NNS alias record are compared with a reference model; fees are zero (C05 covers them)"},
	{Prop: "C10", Unwind: 300, Pkg: "nns", Func: "VerifC10Lifecycle", Link: []string{"nns"},
		Quick:    [][]int{{0, 20, 99, 99, 99, 1}, {0, 30, 20, 99, 99, 1}, {0, 2, 32, 99, 99, 1}, {0, 30, 0, 99, 99, 0}, {0, 10, 99, 99, 99, 0}, {0, 20, 99, 99, 99, 0}, {0, 2, 30, 99, 99, 0}, {0, 2, 32, 99, 99, 0}, {0, 30, 20, 99, 99, 0}, {0, 1, 10, 99, 99, 0}, {0, 1, 30, 0, 99, 0}},
		Thorough: [][]int{{0, 30, 0, 99, 99, 0}, {0, 10, 99, 99, 99, 0}, {0, 20, 99, 99, 99, 0}, {0, 2, 30, 99, 99, 0}, {0, 2, 32, 99, 99, 0}, {0, 1, 10, 99, 99, 0}, {0, 1, 30, 0, 99, 0}, {0, 1, 10, 11, 99, 0}, {0, 10, 30, 0, 99, 0}, {0, 30, 10, 99, 99, 0}, {0, 20, 30, 20, 99, 0}, {0, 1, 10, 30, 99, 0}, {0, 30, 30, 0, 99, 0}, {0, 2, 30, 2, 99, 0}, {0, 2, 12, 32, 99, 0}},
		Bound:    "NNS with one TLD; pool names a.com, b.com, x.a.com, owners o1,o2; the step kinds and names are the params (register / transfer / renew / time passes), within a step the signer, receiver, lifetime 1..4*10^8 s, years 0..11 and the time span 1..3*10^6 ms are symbolic; after every step totalSupply, balanceOf, tokensOf, isAvailable and ownerOf of the name are compared with a reference model (block clock symbolic); param5 = 1: the pool is com.com, b.com, x.com.com (a name whose leftmost label is also a registered TLD)"},
	{Prop: "C10", Unwind: 300, Pkg: "nns", Func: "VerifC10ExpiredTLD", Link: []string{"nns"},
		Bound: "TLD org registered by the committee with a symbolic lifetime 1..1000 s, a.org with a symbolic lifetime 1..2000 s and one record, a symbolic time span 1..2.1*10^6 ms: ownerOf, properties, getRecords, resolve, getAllRecords answer exactly while the name AND its TLD are unexpired (witness exactly at the TLD's expiration replayed)"},
	{Prop: "C11", Unwind: 300, Pkg: "nns", Func: "VerifC10Lifecycle", Link: []string{"nns"},
		Quick:    [][]int{{0, 30, 0, 99, 99, 0}, {0, 10, 99, 99, 99, 0}, {0, 1, 10, 99, 99, 0}},
		Thorough: [][]int{{0, 30, 0, 99, 99, 0}, {0, 10, 99, 99, 99, 0}, {0, 10, 30, 0, 99, 0}, {0, 1, 10, 99, 99, 0}, {0, 1, 30, 0, 99, 0}},
		Bound:    "the lifecycle harness of C10 for register - time passes - register again, and register - transfer: after every step balanceOf and tokensOf of both owners list exactly what the model records, so an account that lost a name holds nothing of it"},
	{Prop: "C11", Unwind: 300, Pkg: "nns", Func: "VerifC11LabelIsTLD", Link: []string{"nns"},
		Quick: [][]int{{0}, {1}},
		Bound: "TLDs com and zone; o1 owns zone.com (param0 = 1: com.zone), a second-level name whose label is also a registered TLD; one registration of a third-level name under it for o1 or for another account, with a symbolic signer set over {o1, the other account}+stranger: it takes effect exactly with the witnesses of the parent's owner and of the new owner"},
	{Prop: "C11", Pkg: "nns", Func: "VerifC11Authorisation", Link: []string{"nns"},
		Quick: c11Params(false), Thorough: c11Params(true),
		Bound: "history: a.com registered by o1, one record, admin a1 (variant 0) / then transferred to o2 (variant 1) / then expired and registered again by o2 (variant 2: the appointed admin must be gone); ONE invocation of the method given by param1 (addRecord, setRecord, deleteRecords, updateSOA, renew, setAdmin, transfer, register 3rd level, register 2nd level, registerTLD, setPrice, register 4th level under a 3rd-level name of another owner) with a symbolic signer set over {o1,o2,o3,a1,new admin,committee}+stranger; committee size param2"},
	{Prop: "C12", Pkg: "nns", Func: "VerifC12Records", Link: []string{"nns"}, Unwind: 100,
		Bound: "one registered name; a fixed sequence of record operations (add, add-possibly-duplicate, setRecord with symbolic index 0..2, add to an unregistered sub-name, registration attempt of a name whose sub-name has records, delete SOA, delete TXT) with symbolic 3-byte record data and a symbolic block clock; getRecords/getAllRecords and the SOA record (serial = time of the last mutation) compared with a model after each step"},
	{Prop: "C12", Pkg: "nns", Func: "VerifC12DeepSubName", Link: []string{"nns"}, Unwind: 100,
		Bound: "one registered name; records with symbolic 3-byte data for a sub-name one label below it and for a sub-name TWO labels below it (the name in between is not registered), read back through getRecords, getAllRecords, resolve and resolve with a trailing dot; fixed block clock"},
	{Prop: "C12", Unwind: 300, Pkg: "nns", Func: "VerifC10ExpiredTLD", Link: []string{"nns"},
		Bound: "the expired-TLD harness of C10: a TLD with a symbolic lifetime 1..1000 s, a name under it with a symbolic lifetime 1..2000 s and one record, a symbolic time span: getRecords, resolve and getAllRecords answer exactly while the name AND its TLD are unexpired (a name may outlive its TLD)"},
	{Prop: "C12", Unwind: 300, Pkg: "container", Func: "VerifC04ExpiredAlias", Link: []string{"nns", "netmap", "balance", "neofsid", "container"},
		Bound: "the lapsed-alias harness of C04: the alias TXT record written by the Container contract (its domain string is a NeoVM Buffer) and a second TXT record added by the domain's owner are both listed, in order; decided by the VM during the witness replays (the engine does not track NeoVM item types)"},
	{Prop: "C12", Pkg: "nns", Func: "VerifC12Limits", Link: []string{"nns"}, Unwind: 100,
		Quick: [][]int{{17}}, Thorough: [][]int{{16}, {17}, {18}},
		Bound: "param0 additions of distinct TXT records (one symbolic byte each): exactly the first 16 are accepted; a second CNAME is refused"},
	{Prop: "C12", Pkg: "nns", Func: "VerifC12Resolve", Link: []string{"nns"}, Unwind: 100,
		Quick: [][]int{{0, 0}, {1, 0}, {2, 0}, {4, 0}, {1, 1}}, Thorough: [][]int{{0, 0}, {1, 0}, {2, 0}, {3, 0}, {4, 0}, {0, 1}, {1, 1}, {2, 1}},
		Bound: "five registered names with one symbolic TXT record each, a CNAME chain of param0 links (param1 = 1: closed into a cycle); resolve with and without trailing dot, for TXT and CNAME"},
	{Prop: "C12", Pkg: "nns", Func: "VerifC12Conflict", Link: []string{"nns"}, Unwind: 100,
		Quick: [][]int{{0}, {1}, {2}, {3}, {4}},
		Bound: "a.com registered, one record with symbolic data added for a name that is not registered (param0: w.a.com itself / x.w.a.com / x.w.a.com.y.w.a.com / the sibling xw.a.com / x.b.a.com), then isAvailable and register of w.a.com: refused exactly when the record belongs to a sub-name of w.a.com"},
	{Prop: "C12", Pkg: "nns", Func: "VerifC12ReRegister", Link: []string{"nns"}, Unwind: 100,
		Bound: "a.com alive, b.a.com with a symbolic lifetime 1..1000 s, a symbolic time span 1..1.1*10^6 ms, optionally a record for x.b.a.com added by the owner of a.com, then b.a.com registered again: success exactly when isAvailable says so, never while alive, never while the enclosing name holds a record of a sub-name"},
	{Prop: "C12", Pkg: "nns", Func: "VerifC12Expiry", Link: []string{"nns"},
		Bound: "a name with symbolic lifetime 1..1000 s and one record, a symbolic time span 1..1.1*10^6 ms; getRecords, resolve, getAllRecords answer exactly until the expiration instant"},
	{Prop: "C03", Pkg: "proxy", Func: "VerifC03", Link: []string{"alphabet", "audit", "balance", "container", "neofs", "neofsid", "netmap", "nns", "processing", "proxy", "reputation", "probe1"},
		Quick: c03Params([]int{5, 6, 7}), Thorough: c03Params([]int{1, 2, 3, 4, 5, 6, 7}),
		Bound: "one invocation per mutating method (47 methods of 10 contracts; Container put / putNamed / delete / setEACL also with a non-empty session token, so that NeoFSID's own Alphabet check cannot stand in for a missing one; plus the public Balance transfer with a Null sender and Audit.put in the block right after an Inner Ring re-designation, by a dropped and by a new member; NNS is C11, update is C16) from a small fixture built through the API, arguments concrete/valid, signer set symbolic over {Alphabet 2n/3+1 account, committee n/2+1 account, Inner Ring majority account, one committee member, the named user, the named node}+stranger; committee size = param2 (5, 6, 7 in quick, 1..7 in thorough: the two thresholds differ and every residue class modulo 3 is present, since a slip in the 2n/3+1 arithmetic shows in one class only)"},
	{Prop: "C03", Pkg: "proxy", Func: "VerifC16Gate", Link: []string{"alphabet", "audit", "balance", "container", "neofs", "neofsid", "netmap", "nns", "processing", "proxy", "reputation"},
		Quick:    [][]int{{0, 7}, {1, 7}, {2, 7}, {3, 7}, {4, 7}, {5, 7}, {6, 7}, {7, 7}, {8, 7}, {9, 7}, {10, 7}},
		Thorough: [][]int{{0, 7}, {1, 7}, {2, 7}, {3, 7}, {4, 7}, {5, 7}, {6, 7}, {7, 7}, {8, 7}, {9, 7}, {10, 7}, {4, 1}, {8, 1}, {4, 4}, {8, 4}},
		Bound:    "the update gate harness of C16 for all 11 contracts at committee size param1: update has no effect without the documented majority (committee n/2+1; for NeoFS and Processing the majority of the DESIGNATED NeoFS Alphabet keys, which are not the committee's)"},
	{Prop: "C03", Unwind: 64, Pkg: "neofs", Func: "VerifC17Ballots", Link: []string{"neofs", "processing"},
		Quick:    [][]int{{0, 2, 4, 0}, {2, 2, 4, 0}, {3, 2, 4, 0}, {3, 2, 4, 2}},
		Thorough: [][]int{{0, 2, 4, 0}, {1, 2, 4, 0}, {2, 2, 4, 0}, {3, 2, 4, 0}, {3, 2, 4, 2}, {0, 4, 4, 0}, {3, 4, 4, 0}},
		Bound:    "the ballot harness of C17 (NeoFS without Notary; setConfig / alphabetUpdate / innerRingCandidateRemove, two stored keys, four invocations by symbolic callers): a vote-collected action has no effect before floor(2n/3)+1 distinct Alphabet keys voted for it — a single member cannot act alone, whatever was decided before"},
	{Prop: "C03", Pkg: "proxy", Func: "VerifC03Verify", Link: []string{"alphabet", "netmap", "neofs", "processing", "proxy"},
		Quick: [][]int{{5}, {6}, {7}}, Thorough: [][]int{{1}, {2}, {3}, {4}, {5}, {6}, {7}},
		Bound: "verify of Proxy, Alphabet and Processing with the same symbolic signer set"},
	{Prop: "C16", Pkg: "proxy", Func: "VerifC16GateAfterDesignation", Link: []string{"alphabet", "audit", "balance", "container", "neofs", "neofsid", "netmap", "nns", "processing", "proxy", "reputation"},
		Quick:    [][]int{{1, 0, 8}, {1, 1, 8}, {1, 0, 4}, {1, 1, 4}},
		Thorough: [][]int{{1, 0, 8}, {1, 1, 8}, {4, 0, 8}, {7, 0, 8}, {1, 3, 8}, {1, 0, 4}, {1, 1, 4}, {7, 0, 4}, {1, 3, 4}},
		Bound:    "Processing or NeoFS (param2) deployed as a release of symbolic version, the NeoFS Alphabet role re-designated (three new keys) param1 blocks before the block of the update (0 = the very next block), symbolic presence of the replaced and of the new majority account; committee size param0"},
	{Prop: "C16", Pkg: "proxy", Func: "VerifC16Preserve", Link: []string{"alphabet", "audit", "balance", "container", "neofs", "neofsid", "netmap", "nns", "processing", "proxy", "reputation"},
		Quick: [][]int{{0}, {1}, {2}, {3}},
		Bound: "data preservation on the CURRENT storage layout: Balance (two accounts, a lock, supply), Netmap (epoch, maps, candidates, configuration, ticking), Container (blob, owner index, eACL), NNS (name, owner, record) are built through the API, then upgraded from a release reporting a symbolic supported version; the read API must answer as before. Old storage layouts are NOT generated"},
	{Prop: "C16", Pkg: "balance", Func: "VerifC16MigrateBalance", Link: []string{"netmap", "balance"},
		Quick:    [][]int{{0, 0}, {0, 1}, {0, 2}, {0, 3}, {0, 4}, {1, 0}},
		Bound:    "LEGACY Balance storage preset raw: three accounts under their bare 20-byte hash (amounts 1..10^6 symbolic), one of them a lock account of the first (until 2..100 symbolic), the supply entry; era param0 (0: v in [0.15.4,0.17.0) with the notary flag param1 and the two stored contract hashes, 1: [0.17.0,0.20.0)); symbolic version inside the era; then a transfer and two ticks around the lock's epoch"},
	{Prop: "C16", Pkg: "container", Func: "VerifC16MigrateContainer", Link: []string{"container"},
		Quick:    [][]int{{0, 0, 0, 0}, {0, 1, 1, 1}, {0, 2, 0, 2}, {0, 3, 1, 0}, {0, 4, 0, 0}, {1, 0, 0, 1}, {1, 0, 1, 2}, {1, 0, 0, 12}},
		Thorough: [][]int{{0, 0, 0, 0}, {0, 1, 0, 1}, {0, 2, 0, 2}, {0, 3, 0, 12}, {0, 4, 0, 0}, {0, 0, 1, 1}, {0, 1, 1, 2}, {0, 2, 1, 12}, {0, 3, 1, 0}, {0, 4, 1, 1}, {1, 0, 0, 0}, {1, 0, 1, 1}, {1, 0, 0, 2}, {1, 0, 1, 12}, {1, 0, 0, 12}},
		Bound:    "LEGACY Container storage preset raw: two containers under their bare 32-byte id (V2 blobs, every byte but the layout symbolic) with the owner index under the bare 57-byte owner||id (param2: one or two owners), an eACL, the stored contract hashes, optionally one size estimation whose symbolic epoch encodes in param3 = 1, 2 or 12 bytes; era param0 (0: v in [0.15.4,0.17.0) with the notary flag param1, 1: [0.17.0,current)); symbolic version inside the era; then one container is deleted"},
	{Prop: "C16", Pkg: "nns", Func: "VerifC16MigrateNNS", Link: []string{"nns"}, Unwind: 100,
		Quick: [][]int{{0}, {1}},
		Bound: "LEGACY NNS storage (< 0.18.0) preset raw in the layout of the recorded testnet dump: TLD 'com' as an ordinary token with a 20-byte owner, 'a.com' with a symbolic expiration, SOA records and one TXT record with 3 symbolic bytes, symbolic price >= 1; param0 = 1: the TLD's owner also owns a.com; symbolic version 0.15.4 <= v < 0.18.0; then a record is added and a sibling name registered"},
	{Prop: "C16", Pkg: "neofsid", Func: "VerifC16MigrateNeoFSID", Link: []string{"neofsid"},
		Quick: [][]int{{0, 0}, {0, 1}, {0, 2}, {0, 3}, {0, 4}, {1, 0}, {2, 0}},
		Bound: "NeoFSID storage of an older release preset raw: two owners (symbolic 25-byte ids) with two and one symbolic 33-byte keys, the contract hashes older releases stored, era param0 (0: v in [0.15.4,0.17.0) with the notary flag param1, 1: [0.17.0,0.19.0), 2: [0.19.0,current)), symbolic version inside the era; key(owner) for both owners and an unknown one, then addKey and removeKey on the migrated bindings"},
	{Prop: "C16", Pkg: "reputation", Func: "VerifC16MigrateReputation", Link: []string{"reputation"},
		Quick: [][]int{{0, 0}, {0, 1}, {0, 2}, {0, 3}, {0, 4}, {1, 0}},
		Bound: "Reputation storage of an older release preset raw: two ids (symbolic epochs 1..127, symbolic peers) with two and one symbolic values and their counters, era param0 (0: v in [0.15.4,0.17.0) with the notary flag param1, 1: [0.17.0,current)), symbolic version inside the era; get / getByID / listByEpoch, then one more put for a migrated id"},
	{Prop: "C16", Pkg: "audit", Func: "VerifC16MigrateAudit", Link: []string{"audit"},
		Quick: [][]int{{0, 1}, {0, 2}, {1, 0}},
		Bound: "Audit storage of an older release preset raw: two results of two Inner Ring members under their ids (symbolic epochs 1..127, container ids, tails), the Netmap hash older releases stored, era param0 (0: v in [0.15.4,0.17.0) with the notary flag false/true = param1 1/2 — Audit never collected votes, there are no ballots —, 1: [0.17.0,current)), symbolic version inside the era; get, list (which enumerates every storage key), listByEpoch, then one more put"},
	{Prop: "C16", Unwind: 260, Pkg: "netmap", Func: "VerifC16MigrateNetmap", Link: []string{"netmap", "probe1", "probe2"},
		Quick:    [][]int{{0, 9}, {1, 9}, {2, 9}, {0, 8}, {0, 0}, {0, 1}, {0, 2}, {0, 3}, {0, 4}, {0, 5}, {0, 6}, {0, 7}, {1, 0}, {1, 2}, {1, 4}, {1, 5}, {1, 6}, {2, 0}},
		Thorough: [][]int{{0, 9}, {1, 9}, {2, 9}, {0, 8}, {0, 0}, {0, 1}, {0, 2}, {0, 3}, {0, 4}, {0, 5}, {0, 6}, {0, 7}, {1, 0}, {1, 1}, {1, 2}, {1, 3}, {1, 4}, {1, 5}, {1, 6}, {1, 7}, {2, 0}},
		Bound:    "LEGACY Netmap storage preset raw (not producible by the current code): era param0 (0: v in [0.15.4,0.16.0) one-field snapshot nodes and {{BLOB},state} candidates; 1: [0.16,0.17); 2: [0.17,0.19)), notary flag param1 (absent / false / true without ballots / true with a stale ballot / true with a pending ballot / true with a ballot whose last vote is a symbolic 15..25 blocks before the update: refused iff <= 20, witnesses at exactly 20 and 21 replayed / true with two ballots, a pending one before or after a stale one; 8 (era 0): false, and a history extended from 2 to 4 snapshots and not refilled, i.e. a ring with missing slots in the middle; 9 (all eras): false, and a history of 200 snapshots with the current one in slot 129 and the previous in slot 128); symbolic version inside the era, epoch 1..1000, current snapshot id, two candidates with symbolic states 1..3, 3-byte-symbolic node blobs, one config value; the working tree's _deploy(data||v, true) runs on it; replay: a stand-in contract of the same manifest name receives the raw items and is updated to the real NEF"},
}

func c03Params(sizes []int) [][]int {
	counts := []int{7, 11, 16, 6, 8, 2}
	var out [][]int
	for _, n := range sizes {
		for g, c := range counts {
			for m := 0; m < c; m++ {
				out = append(out, []int{g, m, n})
			}
		}
	}
	return out
}

func c11Params(thorough bool) [][]int {
	out := [][]int{{2, 0, 1}, {2, 3, 1}, {2, 7, 1}} // variant 2 (expired and registered again): addRecord, updateSOA, register 3rd level
	if thorough {
		out = append(out, []int{2, 1, 1}, []int{2, 2, 1}, []int{2, 4, 1}, []int{2, 5, 1}, []int{2, 6, 1})
	}
	for v := 0; v < 2; v++ {
		for m := 0; m <= 11; m++ {
			n := 1
			if m == 9 || m == 10 {
				n = 7
			}
			out = append(out, []int{v, m, n})
			if thorough && (m == 9 || m == 10) {
				out = append(out, []int{v, m, 1}, []int{v, m, 4})
			}
		}
	}
	return out
}

func c04Thorough() [][]int {
	out := [][]int{{3, 100, 0, 4, 3}, {2, 100, 0, 3}, {2, 104, 0, 3}, {2, 100, 2, 3}, {3, 100, 0, 3, 0}, {3, 0, 0, 4, 0}, {3, 4, 0, 4, 1}, {3, 0, 2, 4, 2}}
	for a := 0; a < 5; a++ {
		for b := 0; b < 5; b++ {
			out = append(out, []int{2, (a + b) % 3 * 4 % 9, a, b}) // version-field lengths 0, 4, 8
		}
	}
	// put-delete-put (replay of a deleted id), named-delete-named (name reuse), put-eACL-delete, named-put-delete
	return append(out, []int{3, 0, 0, 3, 0}, []int{3, 4, 2, 3, 2}, []int{3, 0, 0, 4, 3}, []int{3, 7, 2, 0, 3}, []int{3, 0, 1, 3, 1}, []int{3, 4, 0, 2, 3}, []int{3, 0, 2, 3, 0})
}

func ipv4Shapes() [][]int {
	var out [][]int
	for a := 1; a <= 3; a++ {
		for b := 1; b <= 3; b++ {
			for c := 1; c <= 3; c++ {
				for d := 1; d <= 3; d++ {
					out = append(out, []int{a, b, c, d})
				}
			}
		}
	}
	return append(out, []int{4, 1, 1, 1}, []int{1, 1, 1, 4}, []int{0, 1, 1, 1}, []int{1, 0, 1, 1}, []int{1, 1, 1, 0})
}

func allTriples(n int) [][]int {
	var out [][]int
	for a := 0; a < n; a++ {
		for b := 0; b < n; b++ {
			for c := 0; c < n; c++ {
				out = append(out, []int{a, b, c})
			}
		}
	}
	return out
}










