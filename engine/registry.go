package main

// Harness registry: which harness functions decide which property, with which parameter tuples per tier.

type Harness struct {
	Prop     string
	Pkg      string   // directory under /verif/harness = the package the harness is overlaid into
	Func     string   // harness function
	Link     []string // contracts executed symbolically (hash/namespace order)
	Quick    [][]int  // parameter tuples (nil = one run without parameters)
	Thorough [][]int  // nil = same as Quick
	Unwind   int      // loop unwinding limit (default 16)
	Native   bool     // native-Go mode (package deploy): fixed-width integers, no package initialisers
	Bound    string   // stated bound of this harness (goes into the evidence)
}

func (h *Harness) unwind() int {
	if h.Unwind > 0 {
		return h.Unwind
	}
	return 16
}

// probe contracts shipped with the engine (name -> directory under engine/probe)
var probeContracts = map[string]string{}

func findHarness(fn string) *Harness {
	for i := range registry {
		if registry[i].Func == fn {
			return &registry[i]
		}
	}
	return nil
}

var registry = []Harness{
	{Prop: "C01", Pkg: "balance", Func: "VerifC01Transfer", Link: []string{"netmap", "balance"},
		Bound: "mint,mint then one public transfer; amounts, direction, signer symbolic"},
}
