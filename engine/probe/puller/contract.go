// Package puller is a probe contract used by the C02 harness: a third-party contract that calls the public
// transfer of the Balance contract with arguments of the caller's choosing.
package puller

import (
	"github.com/nspcc-dev/neo-go/pkg/interop"
	"github.com/nspcc-dev/neo-go/pkg/interop/contract"
)

// nolint:deadcode,unused
func _deploy(data any, isUpdate bool) {}

// Pull asks the token contract to move amount from one account to another and reports the token's answer.
func Pull(token interop.Hash160, from, to interop.Hash160, amount int) bool {
	return contract.Call(token, "transfer", contract.All, from, to, amount, nil).(bool)
}
