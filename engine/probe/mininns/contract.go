// Package mininns is a probe contract used by the C04 harness: a second, minimal name service with the NNS
// methods the Container contract calls, so that a Container deployed with an explicit NNS address that is NOT
// contract 1 can be told from one that silently talks to contract 1.
package mininns

import (
	"github.com/nspcc-dev/neo-go/pkg/interop"
	"github.com/nspcc-dev/neo-go/pkg/interop/storage"
)

// nolint:deadcode,unused
func _deploy(data any, isUpdate bool) {}

func nameKey(name string) []byte { return append([]byte("n:"), name...) }
func recKey(name string) []byte  { return append([]byte("r:"), name...) }

// IsAvailable tells whether the name is free.
func IsAvailable(name string) bool {
	return storage.Get(storage.GetReadOnlyContext(), nameKey(name)) == nil
}

// RegisterTLD records a top-level name.
func RegisterTLD(name, email string, refresh, retry, expire, ttl int) {
	storage.Put(storage.GetContext(), nameKey(name), "tld")
}

// Register records a name for the owner unless it is taken.
func Register(name string, owner interop.Hash160, email string, refresh, retry, expire, ttl int) bool {
	ctx := storage.GetContext()
	if storage.Get(ctx, nameKey(name)) != nil {
		return false
	}
	storage.Put(ctx, nameKey(name), owner)
	return true
}

// OwnerOf returns the owner of a registered name.
func OwnerOf(name string) string {
	v := storage.Get(storage.GetReadOnlyContext(), nameKey(name))
	if v == nil {
		panic("token not found")
	}
	return v.(string)
}

// AddRecord stores the (single) record of a registered name.
func AddRecord(name string, typ int, data string) {
	ctx := storage.GetContext()
	if storage.Get(ctx, nameKey(name)) == nil {
		panic("token not found")
	}
	storage.Put(ctx, recKey(name), data)
}

// GetRecords returns the record of the name, if any.
func GetRecords(name string, typ int) []string {
	v := storage.Get(storage.GetReadOnlyContext(), recKey(name))
	if v == nil {
		return []string{}
	}
	return []string{v.(string)}
}

// DeleteRecords removes the record of a registered name.
func DeleteRecords(name string, typ int) {
	ctx := storage.GetContext()
	if storage.Get(ctx, nameKey(name)) == nil {
		panic("token not found")
	}
	storage.Delete(ctx, recKey(name))
}
