// Package subscriber2 is a probe contract used by the C06 harnesses: a NewEpoch subscriber that records every
// tick it receives as a notification and can be told to refuse one epoch.
package subscriber2

import (
	"github.com/nspcc-dev/neo-go/pkg/interop/runtime"
	"github.com/nspcc-dev/neo-go/pkg/interop/storage"
)

// nolint:deadcode,unused
func _deploy(data any, isUpdate bool) {}

// NewEpoch is what Netmap calls on its subscribers.
func NewEpoch(e int) {
	ctx := storage.GetContext()
	f := storage.Get(ctx, "failAt")
	if f != nil && f.(int) == e {
		panic("probe subscriber refuses this epoch")
	}
	storage.Put(ctx, "last", e)
	runtime.Notify("Tick", e)
}

// FailAt makes the probe refuse the given epoch.
func FailAt(e int) {
	storage.Put(storage.GetContext(), "failAt", e)
}

// Last returns the last epoch received.
func Last() int {
	v := storage.Get(storage.GetReadOnlyContext(), "last")
	if v == nil {
		return -1
	}
	return v.(int)
}
