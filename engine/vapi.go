package main

// The harness API (functions declared in the generated prelude, intercepted here).

import (
	"slices"
	"fmt"
	"os"
	"path/filepath"
	"math/big"
	"sort"
	"strconv"
	"strings"
	"unicode"

	"github.com/nspcc-dev/neo-go/pkg/crypto/keys"
	"golang.org/x/tools/go/ssa"
)

var hiddenTags = map[string]bool{} // signature tokens: their bytes mean nothing

const preludeText = `
func vInt(tag string) int                                  { return 0 }
func vBool(tag string) bool                                { return false }
func vBytes(tag string, n int) []byte                      { return nil }
func vU64(tag string) uint64                               { return 0 }
func vU32(tag string) uint32                               { return 0 }
func vParam(i int) int                                     { return 0 }
func vCommittee(n int)                                     {}
func vAcct(tag string) []byte                              { return nil }
func vKey(tag string) []byte                               { return nil }
func vContractHash(name string) []byte                     { return nil }
func vAlphabetAcct() []byte                                { return nil }
func vCommitteeAcct() []byte                               { return nil }
func vIRMajorityAcct() []byte                              { return nil }
func vMemberAcct(i int) []byte                             { return nil }
func vMemberKey(i int) []byte                              { return nil }
func vGasHash() []byte                                     { return nil }
func vAssume(c bool)                                       {}
func vAssert(c bool, id string)                            {}
func vKnown(c bool, id string)                             {}
func vCover(id string)                                     {}
func vCoverIf(c bool, id string)                           {}
func vRequire(c bool, id string)                           {}
func vDeploy(contract string, args ...any)                 {}
func vSign(acct []byte, present bool)                      {}
func vInvoke(contract, method string, args ...any) (bool, any) { return false, nil }
func vRead(contract, method string, args ...any) (bool, any)   { return false, nil }
func vEvents(contract, name string) [][]any                { return nil }
func vEventCount() int                                     { return 0 }
func vEventNames() []string                                { return nil }
func vEffects() bool                                       { return false }
func vStorageCount(contract string) int                    { return 0 }
func vAdvanceTime(ms int)                                  {}
func vAdvance(blocks int)                                  {}
func vSetIR(n int)                                         {}
func vIRKey(i int) []byte                                  { return nil }
func vFundGas(acct []byte, amount int)                     {}
func vGasOf(acct []byte) int                               { return 0 }
func vSigBy(tag string, who int, msg []byte) []byte        { return nil }
func vSigMembers(tags ...string)                           {}
func vBlob(tag string, marker int) []byte                  { return nil }
func vKernel(name string, args ...any) (bool, any)         { return false, nil }
func vDeployVersion(contract string, version int, args ...any) {}
func vUpdateFrom(contract string, oldVersion int, data ...any) (bool, any) { return false, nil }
func vRepoVersion() int                                    { return 0 }
func vSetIRNamed(prefix string, n int)                     {}
func vPresetDeploy(contract string)                        {}
func vPreset(contract string, key []byte, val any)         {}
func vSerialize(x any) []byte                              { return nil }
func vUpdateFromPreset(contract string, oldVersion int, data ...any) (bool, any) { return false, nil }
func vHeight() int                                         { return 0 }
func vTime() int                                           { return 0 }
func vFixClock()                                           {}
func vEq(a, b []byte) bool                                 { return false }
func vSha256(b []byte) []byte                              { return nil }
`

var preludeNames = func() map[string]bool {
	m := map[string]bool{}
	for _, l := range strings.Split(preludeText, "\n") {
		if strings.HasPrefix(l, "func ") {
			m[l[5:strings.Index(l, "(")]] = true
		}
	}
	return m
}()

func isHarnessFn(fn *ssa.Function) bool {
	if fn.Prog == nil || !preludeNames[fn.Name()] {
		return false
	}
	f := fn.Prog.Fset.Position(fn.Pos()).Filename
	return strings.Contains(f, "zz_verif_")
}

func inHarnessFile(fn *ssa.Function) bool {
	if fn == nil || fn.Prog == nil {
		return false
	}
	return strings.Contains(fn.Prog.Fset.Position(fn.Pos()).Filename, "zz_verif_")
}

func (e *Engine) allVars() []*T {
	var want []*T
	for _, t := range table {
		if t.op == "var" && !strings.HasPrefix(t.name, "enc") && !strings.HasPrefix(t.name, "dig") {
			want = append(want, t)
		}
	}
	sort.Slice(want, func(i, j int) bool { return want[i].id < want[j].id })
	return want
}

func (e *Engine) modelBytes(tag string, n int) BytesV {
	b := make([]byte, n)
	for i := range b {
		v, _ := strconv.Atoi(e.model[fmt.Sprintf("%s_%d", tag, i)])
		b[i] = byte(v)
	}
	return constBytes(string(b))
}

func (e *Engine) bumpBlock(s *State) {
	s.height = Add(s.height, I(1))
	s.lastTime = Add(s.lastTime, I(1))
}

func cInt(v Value) int {
	t := v.(IntV).t
	if !t.isC() {
		panic("harness API: argument must be concrete")
	}
	return int(t.n.Int64())
}

func cStr(v Value) string {
	s, ok := isConstBytes(v.(BytesV))
	if !ok {
		panic("harness API: string argument must be concrete")
	}
	return s
}

func (e *Engine) listArgs(s *State, v Value) []Value {
	if l, ok := v.(ListV); ok {
		return s.heap[l.id].(ArrObj).e
	}
	return nil
}

func (e *Engine) irPubs() [][]byte {
	var ks keys.PublicKeys
	for _, tg := range e.irKeys {
		ks = append(ks, tagAccount(tg).PublicKey())
	}
	sort.Sort(ks)
	var out [][]byte
	for _, k := range ks {
		out = append(out, k.Bytes())
	}
	return out
}

// posOf: file:line of a harness call, for messages about that call site.
func (e *Engine) posOf(fn *ssa.Function, in *ssa.Call) string {
	p := fn.Prog.Fset.Position(in.Pos())
	f := p.Filename
	if i := strings.LastIndex(f, "/"); i >= 0 {
		f = f[i+1:]
	}
	return f + ":" + strconv.Itoa(p.Line)
}

func (e *Engine) vcall(fn *ssa.Function, s *St, in *ssa.Call, ip int, short string, args []Value) (next []succ, fin []Out, cont bool) {
	set := func(v Value) ([]succ, []Out, bool) { s.env[in] = v; return nil, nil, true }
	tag := func() string { return cStr(args[0]) }
	switch short {
	case "vInt":
		if e.model != nil {
			n, _ := new(big.Int).SetString(e.model[tag()], 10)
			if n == nil {
				n = big.NewInt(0)
			}
			return set(IntV{IB(n)})
		}
		return set(IntV{Var(tag(), 'I')})
	case "vBool":
		if e.model != nil {
			return set(BoolV{B(e.model[tag()] == "true")})
		}
		return set(BoolV{Var(tag(), 'B')})
	case "vBytes":
		n := cInt(args[1])
		if e.model != nil {
			return set(e.modelBytes(tag(), n))
		}
		return set(e.namedBytes(tag(), n))
	case "vU64", "vU32":
		bits := uint(64)
		if short == "vU32" {
			bits = 32
		}
		if e.model != nil {
			n, _ := new(big.Int).SetString(e.model[tag()], 10)
			if n == nil {
				n = big.NewInt(0)
			}
			return set(IntV{IB(n)})
		}
		v := VarR(tag(), big.NewInt(0), new(big.Int).Sub(new(big.Int).Lsh(big.NewInt(1), bits), big.NewInt(1)))
		return set(IntV{v})
	case "vParam":
		i := cInt(args[0])
		if i >= len(e.params) {
			panic(fmt.Sprintf("harness wants parameter %d, job has %d", i, len(e.params)))
		}
		return set(IntV{I(int64(e.params[i]))})
	case "vCommittee":
		n := cInt(args[0])
		if e.world.n != n {
			if e.worldUsed {
				panic("vCommittee must come before any use of the world")
			}
			e.world.close()
			e.world = newWorld(n, e.model != nil)
		}
		return set(UnitV{})
	case "vAcct": // deterministic real test account: concrete script hash, identical in both back ends
		e.worldUsed = true
		return set(constBytes(string(e.world.account(tag()).BytesBE())))
	case "vKey":
		e.world.account(tag())
		return set(constBytes(string(tagAccount(tag()).PublicKey().Bytes())))
	case "vContractHash":
		e.worldUsed = true
		return set(constBytes(string(e.hashOfContract(tag()))))
	case "vAlphabetAcct":
		e.worldUsed = true
		return set(constBytes(string(e.world.alphabet.ScriptHash().BytesBE())))
	case "vCommitteeAcct":
		e.worldUsed = true
		return set(constBytes(string(e.world.committee.ScriptHash().BytesBE())))
	case "vIRMajorityAcct": // n/2+1 multi-signature account of the designated Inner Ring (NeoFSAlphabet role) keys
		e.worldUsed = true
		pubs := e.irPubs()
		h, ok := e.world.multisigHash(len(pubs)/2+1, pubs)
		if !ok {
			panic("vIRMajorityAcct: no Inner Ring designated")
		}
		return set(constBytes(string(h)))
	case "vMemberAcct":
		e.worldUsed = true
		return set(constBytes(string(e.world.memberAcct(cInt(args[0])))))
	case "vMemberKey":
		e.worldUsed = true
		return set(constBytes(string(e.world.pubs[cInt(args[0])])))
	case "vGasHash":
		return set(constBytes(string(e.world.gasHash())))
	case "vIRKey":
		return set(constBytes(string(e.irPubs()[cInt(args[0])])))
	case "vBlob": // 66-byte node info: key of the tagged account at [2:35], marker byte at [40]
		b := make([]*T, 66)
		for i := range b {
			b[i] = I(0)
		}
		e.world.account(tag())
		k := tagAccount(tag()).PublicKey().Bytes()
		for i := range k {
			b[2+i] = I(int64(k[i]))
		}
		b[40] = args[1].(IntV).t
		return set(BytesV{b})
	case "vSigMembers":
		e.sigMembers = nil
		for _, a := range e.listArgs(s.State, args[0]) {
			e.sigMembers = append(e.sigMembers, cStr(a))
			e.world.account(cStr(a))
		}
		return set(UnitV{})
	case "vSigBy": // vSigBy(tag, who, msg): signature of msg by member #who (members as set by vSigMembers; others = outsider)
		who := args[1].(IntV).t
		if e.model != nil {
			tagName := "outsider"
			if w := int(who.n.Int64()); w >= 0 && w < len(e.sigMembers) {
				tagName = e.sigMembers[w]
			}
			m, _ := isConstBytes(args[2].(BytesV))
			return set(constBytes(string(tagAccount(tagName).PrivateKey().Sign([]byte(m)))))
		}
		b := e.namedBytes(tag(), 64)
		hiddenTags[tag()] = true
		e.sigWho[b.b[0].id] = who
		e.sigMsg[b.b[0].id] = args[2].(BytesV)
		return set(b)
	case "vEq":
		a, aok := args[0].(BytesV)
		b, bok := args[1].(BytesV)
		if !aok || !bok {
			_, an := args[0].(NullV)
			_, bn := args[1].(NullV)
			if an && bok {
				return set(BoolV{B(len(b.b) == 0)})
			}
			if bn && aok {
				return set(BoolV{B(len(a.b) == 0)})
			}
			return set(BoolV{B(an && bn)})
		}
		return set(BoolV{bytesEq(a.b, b.b)})
	case "vSha256":
		return set(e.digest("sha256", args[0].(BytesV)))
	case "vKernel": // call an unexported function of the harness package; a panic is reported as ok=false
		nm := cStr(args[0])
		kargs := e.listArgs(s.State, args[1])
		kf := e.pkg.Func(nm)
		if kf == nil {
			panic("kernel " + nm + " not found in package " + e.pkg.Pkg.Name())
		}
		if e.model != nil { // the kernel runs on the real VM through a wrapper contract
			goArgs := make([]any, len(kargs))
			for i, a := range kargs {
				goArgs[i] = toGoHeap(a, s.State)
			}
			ok, res := e.world.kernelCall(e.harnessPkg, kf, goArgs)
			e.rlog(fmt.Sprintf("  kernel %s(%s) -> ok=%v", nm, showArgs(goArgs), ok))
			s.env[in] = TupleV{[]Value{BoolV{B(ok)}, e.allocLits(s.State, res)}}
			return nil, nil, true
		}
		outs := e.runFrame(kf, kargs, s.State)
		next, fin := e.continueWith(s, in, ip, outs, func(o Out) (Value, bool) {
			if o.panicked {
				return TupleV{[]Value{BoolV{tFalse}, NullV{}}}, false
			}
			return TupleV{[]Value{BoolV{tTrue}, o.val}}, false
		})
		return next, fin, false
	case "vRepoVersion": // the repository version (VERSION file) as the contracts encode it
		data, err := os.ReadFile(filepath.Join(repoRoot, "VERSION"))
		if err != nil {
			panic(err)
		}
		var ma, mi, pa int
		if _, err := fmt.Sscanf(strings.TrimSpace(string(data)), "v%d.%d.%d", &ma, &mi, &pa); err != nil {
			panic("VERSION: " + err.Error())
		}
		return set(IntV{I(int64(ma*1000000 + mi*1000 + pa))})
	case "vDeploy", "vDeployVersion":
		e.worldUsed = true
		c := tag()
		dargs := e.listArgs(s.State, args[1])
		if short == "vDeployVersion" {
			dargs = e.listArgs(s.State, args[2])
		}
		if e.model != nil {
			goArgs := make([]any, len(dargs))
			for i, a := range dargs {
				goArgs[i] = toGoHeap(a, s.State)
			}
			if short == "vDeployVersion" {
				e.world.deployOld(c, args[1].(IntV).t.n.Int64(), goArgs)
			} else {
				e.world.deploy(c, goArgs)
			}
			return set(UnitV{})
		}
		e.signers = e.deploySigners()
		e.cur = e.index(c)
		e.callers = []int{-1}
		e.txTime = Add(s.lastTime, I(1))
		data := ListV{e.alloc(s.State, ArrObj{dargs})}
		outs := e.runFrame(e.linked[c].Func("_deploy"), []Value{data, BoolV{tFalse}}, s.State)
		var good []Out
		for _, o := range outs {
			if !o.panicked {
				good = append(good, o)
			}
		}
		if len(good) != 1 {
			msg := ""
			for _, o := range outs {
				if o.panicked {
					if b, ok := o.val.(BytesV); ok {
						m, _ := isConstBytes(b)
						msg += " fault:" + m
					}
				}
			}
			panic(fmt.Sprintf("_deploy of %s produced %d successful outcomes (of %d)%s", c, len(good), len(outs), msg))
		}
		s.State = good[0].State
		s.State.notifs = nil
		e.bumpBlock(s.State)
		return set(UnitV{})
	case "vSign":
		h := args[0].(BytesV)
		s.State.pending = append(append([]signer(nil), s.State.pending...), signer{args[1].(BoolV).t, h.b})
		return set(UnitV{})
	case "vSetIR", "vSetIRNamed": // designate n Inner Ring keys ir0..ir(n-1) (vSetIRNamed: <prefix>0..)
		prefix, n := "ir", 0
		if short == "vSetIR" {
			n = cInt(args[0])
		} else {
			prefix, n = cStr(args[0]), cInt(args[1])
		}
		e.irKeys = nil
		for i := 0; i < n; i++ {
			e.irKeys = append(e.irKeys, fmt.Sprintf("%s%d", prefix, i))
			e.world.account(fmt.Sprintf("%s%d", prefix, i))
		}
		if e.model != nil {
			e.world.setIR(e.irPubs())
		} else {
			e.bumpBlock(s.State)
			// RoleManagement: a designation made in block N is in force from block N+1
			e.irHistory = append(e.irHistory, irDesignation{act: Add(s.height, I(1)), pubs: e.irPubs()})
		}
		return set(UnitV{})
	case "vFundGas": // vFundGas(account, amount): the validator sends GAS to the account (no payment call-back is modelled)
		h := cStr(args[0])
		if e.model != nil {
			u, _ := uint160BE([]byte(h))
			e.world.fundGas(u, args[1].(IntV).t.n)
			return set(UnitV{})
		}
		s.State.gas[h] = Add(gasOf(s.State, h), args[1].(IntV).t)
		e.bumpBlock(s.State)
		return set(UnitV{})
	case "vGasOf":
		h := cStr(args[0])
		if e.model != nil {
			return set(IntV{IB(e.world.gasBalance([]byte(h)))})
		}
		return set(IntV{gasOf(s.State, h)})
	case "vHeight":
		if e.model != nil {
			return set(IntV{I(int64(e.world.ex.Chain.BlockHeight()))})
		}
		return set(IntV{s.height})
	case "vFixClock": // harnesses whose subject is not time run with one concrete block clock (cheaper Itoa)
		if e.model == nil {
			s.State.lastTime = I(1700000000000)
		}
		return set(UnitV{})
	case "vTime": // timestamp (ms) of the block of the last transaction; reads run at vTime()+1
		if e.model != nil {
			return set(IntV{I(int64(e.world.ex.TopBlock(e.world.t).Timestamp))})
		}
		return set(IntV{s.lastTime})
	case "vAdvanceTime": // mine an empty block whose timestamp is ms later than the last one
		ms := args[0].(IntV).t
		if e.model != nil {
			e.world.mineAfter(ms.n.Uint64())
			return set(UnitV{})
		}
		s.State.lastTime = Add(s.lastTime, ms)
		s.State.height = Add(s.height, I(1))
		return set(UnitV{})
	case "vAdvance":
		if e.model != nil {
			e.world.ex.GenerateNewBlocks(e.world.t, int(args[0].(IntV).t.n.Int64()))
			return set(UnitV{})
		}
		s.State.height = Add(s.height, args[0].(IntV).t)
		s.State.lastTime = Add(s.lastTime, args[0].(IntV).t)
		return set(UnitV{})
	case "vAssume":
		c := args[0].(BoolV).t
		if e.model != nil {
			if !c.isC() {
				panic("replay: symbolic assumption")
			}
			if !c.b {
				e.rlog("  assumption does not hold on the VM: path abandoned")
				e.replayDiverged = true
				return nil, nil, false
			}
			return set(UnitV{})
		}
		// per call site: paths that arrived and paths that survived. A site where none survives is an
		// unsatisfiable assumption: everything after it is discharged vacuously, which job.go reports
		site := e.posOf(fn, in)
		cnt := e.assumeSites[site]
		cnt[0]++
		if !e.feasible(s.State, c) {
			e.assumeSites[site] = cnt
			return nil, nil, false
		}
		cnt[1]++
		e.assumeSites[site] = cnt
		s.State.pc = And(s.pc, c)
		return set(UnitV{})
	case "vCover", "vCoverIf", "vRequire":
		var id string
		cond := tTrue
		kind := "cover"
		if short == "vCoverIf" || short == "vRequire" {
			id = cStr(args[1])
			cond = args[0].(BoolV).t
			if short == "vRequire" { // a success the property demands ("with the required witnesses it succeeds")
				kind = "require"
			}
		} else {
			id = tag()
		}
		if e.model != nil {
			if cond.isC() && cond.b {
				e.replayCovers[id]++
			}
			return set(UnitV{})
		}
		ob := e.obligation(id, kind)
		if ob.Verdict == "sat" && !e.allCovers { // one witness per cover point is enough
			return set(UnitV{})
		}
		t0 := nowMs()
		r, m := e.solver.checkX(s.pc, []*T{cond}, e.allVars(), true)
		e.stats.queries++
		ob.Paths++
		ob.Ms += nowMs() - t0
		if r == "sat" {
			if ob.Verdict != "sat" {
				ob.Verdict, ob.Model = "sat", m
			}
		} else if r != "unsat" {
			ob.Unknown++
		} else if ob.Verdict == "" {
			ob.Verdict = "unsat"
		}
		return set(UnitV{})
	case "vAssert", "vKnown":
		c := args[0].(BoolV).t
		id := cStr(args[1])
		kind := "assert"
		if short == "vKnown" {
			kind = "known"
		}
		if e.model != nil {
			if !c.isC() {
				panic("replay: symbolic assertion")
			}
			if c.b {
				e.replayHolds[id]++
			} else {
				e.replayFails[id]++
				if kind == "known" {
					if e.replayKnown == nil {
						e.replayKnown = map[string]bool{}
					}
					e.replayKnown[id] = true
				}
				e.rlog(fmt.Sprintf("  assertion %s FAILS on the real VM", id))
			}
			return set(UnitV{}) // like the symbolic side: an assertion does not constrain what follows
		}
		ob := e.obligation(id, kind)
		t0 := nowMs()
		r, m := e.solver.checkX(s.pc, []*T{Not(c)}, e.allVars(), true)
		e.stats.queries++
		ob.Paths++
		ob.Ms += nowMs() - t0
		switch {
		case r == "sat":
			if len(ob.Models) < 3 {
				ob.Models = append(ob.Models, m)
			}
			ob.Verdict = "sat"
		case r == "unsat":
			if ob.Verdict == "" {
				ob.Verdict = "unsat"
			}
		default:
			ob.Unknown++
			ob.Notes = append(ob.Notes, r)
		}
		// an assertion does not constrain what follows (one defect must not mask the obligations of another
		// property decided by the same harness); harness code that indexes a result guards itself
		return set(UnitV{})
	case "vInvoke", "vRead":
		e.worldUsed = true
		return e.invoke(s, in, ip, short, cStr(args[0]), cStr(args[1]), e.listArgs(s.State, args[2]))
	case "vEvents":
		c, name := cStr(args[0]), cStr(args[1])
		if e.model != nil {
			var items []Value
			for _, ev := range e.world.events(c, name) {
				items = append(items, e.allocLits(s.State, ev))
			}
			return set(ListV{e.alloc(s.State, ArrObj{items})})
		}
		idx := -3
		if c != "gas" {
			idx = e.index(c)
		}
		var evs []*notifNode
		for n := s.notifs; n != nil; n = n.prev {
			if n.n.contract == idx && n.n.name == name {
				evs = append(evs, n)
			}
		}
		// events guarded by path conditions of merged paths: fork on which of them happened
		type part struct {
			cond *T
			sel  []*notifNode
		}
		parts := []part{{tTrue, nil}}
		for i := len(evs) - 1; i >= 0; i-- {
			n := evs[i]
			var np []part
			for _, p := range parts {
				g := n.g()
				if g.isC() {
					if g.b {
						np = append(np, part{p.cond, append(append([]*notifNode(nil), p.sel...), n)})
					} else {
						np = append(np, p)
					}
					continue
				}
				if c1 := And(p.cond, g); e.feasible(s.State, c1) {
					np = append(np, part{c1, append(append([]*notifNode(nil), p.sel...), n)})
				}
				if c2 := And(p.cond, Not(g)); e.feasible(s.State, c2) {
					np = append(np, part{c2, p.sel})
				}
			}
			parts = np
		}
		if len(parts) > 1 {
			e.stats.forks++
		}
		for i, p := range parts {
			st := s
			if i < len(parts)-1 {
				st = &St{State: s.fork(p.cond), blk: s.blk, env: cloneEnv(s.env)}
			} else {
				s.State.pc = And(s.pc, p.cond)
			}
			var items []Value
			for _, n := range p.sel {
				items = append(items, ListV{e.alloc(st.State, ArrObj{append([]Value(nil), n.n.args...)})})
			}
			st.env[in] = ListV{e.alloc(st.State, ArrObj{items})}
			st.ip = ip + 1
			next = append(next, succ{st, nil})
		}
		return next, nil, false
	case "vEventNames": // "contract.Event" of every notification of the last transaction, in order (forks on guarded events)
		if e.model != nil {
			var items []Value
			for _, n := range e.world.eventNames() {
				items = append(items, constBytes(n))
			}
			return set(ListV{e.alloc(s.State, ArrObj{items})})
		}
		var evs []*notifNode
		for n := s.notifs; n != nil; n = n.prev {
			evs = append(evs, n)
		}
		type part struct {
			cond *T
			sel  []string
		}
		parts := []part{{tTrue, nil}}
		for i := len(evs) - 1; i >= 0; i-- {
			n := evs[i]
			nm := "gas." + n.n.name
			if n.n.contract >= 0 {
				nm = e.names[n.n.contract] + "." + n.n.name
			}
			var np []part
			for _, p := range parts {
				g := n.g()
				if g.isC() {
					if g.b {
						np = append(np, part{p.cond, append(append([]string(nil), p.sel...), nm)})
					} else {
						np = append(np, p)
					}
					continue
				}
				if c1 := And(p.cond, g); e.feasible(s.State, c1) {
					np = append(np, part{c1, append(append([]string(nil), p.sel...), nm)})
				}
				if c2 := And(p.cond, Not(g)); e.feasible(s.State, c2) {
					np = append(np, part{c2, p.sel})
				}
			}
			parts = np
		}
		for i, p := range parts {
			st := s
			if i < len(parts)-1 {
				st = &St{State: s.fork(p.cond), blk: s.blk, env: cloneEnv(s.env)}
			} else {
				s.State.pc = And(s.pc, p.cond)
			}
			var items []Value
			for _, nm := range p.sel {
				items = append(items, constBytes(nm))
			}
			st.env[in] = ListV{e.alloc(st.State, ArrObj{items})}
			st.ip = ip + 1
			next = append(next, succ{st, nil})
		}
		return next, nil, false
	case "vEventCount":
		if e.model != nil {
			return set(IntV{I(int64(e.world.eventCount()))})
		}
		cnt := I(0)
		for n := s.notifs; n != nil; n = n.prev {
			cnt = Add(cnt, Ite(n.g(), I(1), I(0)))
		}
		return set(IntV{cnt})
	case "vStorageCount": // number of items in the contract's storage (raw scan)
		c := tag()
		if e.model != nil {
			return set(IntV{I(int64(e.world.storageCount(c)))})
		}
		nsb := I(int64(e.index(c)))
		type ent struct {
			key   []*T
			val   Value
			guard *T
		}
		var log []ent
		for n := s.store; n != nil; n = n.prev {
			if n.key[0] == nsb {
				log = append(log, ent{n.key, n.val, n.g()})
			}
		}
		cnt := I(0)
		for i := len(log) - 1; i >= 0; i-- { // oldest .. newest; log[0] is the newest
			en := log[i]
			if en.val == nil {
				continue
			}
			live := en.guard
			for j := i - 1; j >= 0; j-- {
				live = And(live, Not(And(log[j].guard, bytesEq(log[j].key, en.key))))
			}
			cnt = Add(cnt, Ite(live, I(1), I(0)))
		}
		return set(IntV{cnt})
	case "vEffects":
		if e.model != nil {
			return set(BoolV{B(e.world.effects())})
		}
		return set(BoolV{e.txEffects(s)})
	case "vPresetDeploy": // an "old release" whose storage is preset raw (old layouts current code cannot produce)
		e.worldUsed = true
		if e.model != nil {
			e.world.deployStandIn(tag())
		} else {
			e.bumpBlock(s.State)
		}
		return set(UnitV{})
	case "vPreset":
		c := tag()
		key := args[1].(BytesV)
		if e.model != nil {
			e.world.putRaw(c, toGo(key).([]byte), toGoHeap(args[2], s.State))
			return set(UnitV{})
		}
		e.cur = e.index(c)
		val := args[2]
		if _, isNull := val.(NullV); isNull {
			panic("vPreset of nil")
		}
		e.put(s.State, e.ns(key.b), val)
		e.bumpBlock(s.State) // one putRaw transaction on the replay side
		return set(UnitV{})
	case "vSerialize":
		if e.model != nil {
			return set(constBytes(string(e.world.serialize(toGoHeap(args[0], s.State)))))
		}
		return set(SerV{e.freeze(s.State, args[0])})
	case "vUpdateFromPreset": // the real _deploy(data||version, isUpdate=true) on the preset storage
		c := tag()
		data := append(append([]Value(nil), e.listArgs(s.State, args[2])...), args[1])
		s.State.pending = nil
		if e.model != nil {
			goArgs := make([]any, len(data))
			for i, a := range data {
				goArgs[i] = toGoHeap(a, s.State)
			}
			ok, fault := e.world.updateStandIn(c, goArgs)
			e.rlog(fmt.Sprintf("  tx %s(stand-in).update(<new nef>, <new manifest>, %s) -> ok=%v %s", c, showArgs(goArgs), ok, fault))
			s.env[in] = TupleV{[]Value{BoolV{B(ok)}, NullV{}}}
			return nil, nil, true
		}
		e.signers = e.deploySigners()
		e.cur = e.index(c)
		e.callers = []int{-1}
		e.txTime = Add(s.lastTime, I(1))
		store0, gas0 := s.store, cloneGas(s.gas)
		s.State.lastTime = e.txTime
		s.State.notifs = nil
		s.State.height = Add(s.height, I(1))
		s.State.txStore0, s.State.txGas0 = store0, gas0
		e.roDepth = 0
		dataV := ListV{e.alloc(s.State, ArrObj{data})}
		outs := e.runFrame(e.linked[c].Func("_deploy"), []Value{dataV, BoolV{tTrue}}, s.State)
		next, fin := e.continueWith(s, in, ip, outs, func(o Out) (Value, bool) {
			if o.panicked {
				o.State.store, o.State.notifs = store0, nil
				o.State.gas = cloneGas(gas0)
				return TupleV{[]Value{BoolV{tFalse}, NullV{}}}, false
			}
			return TupleV{[]Value{BoolV{tTrue}, NullV{}}}, false
		})
		return next, fin, false
	case "vUpdateFrom": // vUpdateFrom(contract, oldVersion, data...): the contract's update(nef, manifest, data) where the running (old) code reports oldVersion
		c := tag()
		data := e.listArgs(s.State, args[2])
		if e.model != nil {
			pending := s.State.pending
			s.State.pending = nil
			var hs [][]byte
			for _, sg := range pending {
				if sg.present.isC() && sg.present.b {
					h, _ := isConstBytes(BytesV{sg.hash})
					hs = append(hs, []byte(h))
				}
			}
			goArgs := make([]any, len(data))
			for i, a := range data {
				goArgs[i] = toGoHeap(a, s.State)
			}
			ok, fault := e.world.update(c, hs, goArgs)
			e.rlog(fmt.Sprintf("  tx %s.update(<new nef>, <new manifest>, %s) signers=%d -> ok=%v %s", c, showArgs(goArgs), len(hs), ok, fault))
			s.env[in] = TupleV{[]Value{BoolV{B(ok)}, NullV{}}}
			return nil, nil, true
		}
		e.updateFromVersion = args[1].(IntV).t
		var dataV Value = NullV{}
		if len(data) > 0 {
			dataV = ListV{e.alloc(s.State, ArrObj{append([]Value(nil), data...)})}
		}
		next, fin, cont := e.invoke(s, in, ip, "vInvoke", c, "update", []Value{constBytes("nef"), constBytes("manifest"), dataV})
		e.updateFromVersion = nil
		return next, fin, cont
	}
	panic("unknown harness function " + short)
}

// harnessFaults turns the faulted outcomes of the harness frame itself into an obligation. Harness code
// runs outside every transaction: the only way it can fault is on a value a contract returned that does not
// have the shape its declared type promises (a struct with fewer fields, Null for a struct, a shorter list
// than the one indexed). Such a path used to end silently, taking the assertions after it along.
func (e *Engine) harnessFaults(prop string, outs []Out) {
	id := prop + "/harness-runs-to-completion"
	if e.model != nil {
		for _, o := range outs {
			if o.panicked {
				e.replayFails[id]++
				e.rlog(fmt.Sprintf("  the harness faults on a value returned by the real VM (%s)", faultText(o.val)))
			}
		}
		return
	}
	ob := e.obligation(id, "assert")
	for _, o := range outs {
		if !o.panicked {
			continue
		}
		t0 := nowMs()
		r, m := e.solver.checkX(o.State.pc, nil, e.allVars(), true)
		e.stats.queries++
		ob.Paths++
		ob.Ms += nowMs() - t0
		note := "harness-level fault: " + faultText(o.val)
		switch {
		case r == "sat":
			if len(ob.Models) < 3 {
				ob.Models = append(ob.Models, m)
			}
			ob.Verdict = "sat"
			if !slices.Contains(ob.Notes, note) {
				ob.Notes = append(ob.Notes, note)
			}
		case r == "unsat":
		default:
			ob.Unknown++
			ob.Notes = append(ob.Notes, r)
		}
	}
	if ob.Verdict == "" {
		ob.Verdict = "unsat"
	}
}

func faultText(v Value) string {
	if b, ok := v.(BytesV); ok {
		if m, ok := isConstBytes(b); ok {
			return m
		}
	}
	return "fault"
}

func (e *Engine) deploySigners() []signer {
	w := e.world
	var out []signer
	for _, s := range [][]byte{w.validator.ScriptHash().BytesBE(), w.committee.ScriptHash().BytesBE(), w.alphabet.ScriptHash().BytesBE()} {
		out = append(out, signer{tTrue, constBytes(string(s)).b})
	}
	return out
}

func (e *Engine) index(name string) int {
	for i, n := range e.names {
		if n == name {
			return i
		}
	}
	panic("unlinked contract " + name)
}

func (e *Engine) hashOfContract(name string) []byte {
	return e.world.hashOf(name)
}

// ns prefixes a storage key with the executing contract's namespace byte.
func (e *Engine) ns(k []*T) []*T { return append([]*T{I(int64(e.cur))}, k...) }

func exportedName(method string) string {
	r := []rune(method)
	r[0] = unicode.ToUpper(r[0])
	return string(r)
}

// resolveMethod maps a manifest method name (+ arity) to the Go function, honouring config.yml overloads.
func (e *Engine) resolveMethod(contract, method string, nargs int) *ssa.Function {
	pkg := e.linked[contract]
	target := pkg.Func(exportedName(method))
	for goName, exported := range e.world.config(contract).Overloads {
		if exported == method {
			if f := pkg.Func(exportedName(goName)); f != nil && len(f.Params) == nargs {
				target = f
			}
		}
	}
	if target != nil && len(target.Params) != nargs {
		return nil
	}
	return target
}

// invoke models one transaction (vInvoke) or a read-only call (vRead) into a linked contract.
func (e *Engine) invoke(s *St, in *ssa.Call, ip int, kind string, contract, method string, margs []Value) ([]succ, []Out, bool) {
	pending := s.State.pending
	if kind == "vInvoke" {
		s.State.pending = nil
	}
	if e.model != nil { // replay: a real transaction / test invocation
		goArgs := make([]any, len(margs))
		for i, a := range margs {
			goArgs[i] = toGoHeap(a, s.State)
		}
		if kind == "vInvoke" {
			var hs [][]byte
			for _, sg := range pending {
				if !sg.present.isC() {
					panic("replay: symbolic signer presence")
				}
				if sg.present.b {
					h, _ := isConstBytes(BytesV{sg.hash})
					hs = append(hs, []byte(h))
				}
			}
			ok, res, fault := e.world.invoke(contract, hs, method, goArgs)
			e.rlog(fmt.Sprintf("  tx %s.%s(%s) signers=%d -> ok=%v %s", contract, method, showArgs(goArgs), len(hs), ok, fault))
			s.env[in] = TupleV{[]Value{BoolV{B(ok)}, e.allocLits(s.State, res)}}
			return nil, nil, true
		}
		ok, v := e.world.read(contract, method, goArgs)
		s.env[in] = TupleV{[]Value{BoolV{B(ok)}, e.allocLits(s.State, v)}}
		return nil, nil, true
	}
	if contract == "gas" { // the native GAS token (stub): transfer and balanceOf
		return e.invokeGas(s, in, ip, kind, method, margs, pending)
	}
	e.cur = e.index(contract)
	e.callers = []int{-1}
	target := e.resolveMethod(contract, method, len(margs))
	if target == nil { // the VM faults on an unknown method / wrong arity
		s.env[in] = TupleV{[]Value{BoolV{tFalse}, NullV{}}}
		if kind == "vInvoke" {
			e.bumpBlock(s.State)
			s.State.notifs = nil
			s.State.txStore0, s.State.txGas0 = s.store, cloneGas(s.gas)
		}
		return nil, nil, true
	}
	margs = append([]Value(nil), margs...)
	for i, p := range target.Params { // VM arrays passed for struct-/slice-typed parameters
		margs[i] = e.coerceDeep(s.State, margs[i], p.Type())
	}
	e.signers = []signer{{tTrue, constBytes(string(e.world.payer.ScriptHash().BytesBE())).b}}
	if kind == "vInvoke" {
		e.signers = append(e.signers, pending...)
	}
	e.txTime = Add(s.lastTime, I(1)) // neotest: next block (and TestInvoke's fake block) is top+1 ms
	store0, notifs0, gas0 := s.store, s.notifs, cloneGas(s.gas)
	h0 := s.height
	if kind == "vInvoke" {
		s.State.lastTime = e.txTime
		s.State.notifs = nil // notifications are per transaction
		s.State.height = Add(s.height, I(1))
		s.State.txStore0, s.State.txGas0 = store0, gas0
	} else {
		s.State.height = Add(s.height, I(1)) // TestInvoke runs in a fake next block
	}
	e.roDepth = 0
	if e.isSafe(contract, method) {
		e.roDepth = 1
	}
	outs := e.runFrame(target, margs, s.State)
	e.roDepth = 0
	e.stats.paths += len(outs)
	next, fin := e.continueWith(s, in, ip, outs, func(o Out) (Value, bool) {
		if kind == "vRead" {
			o.State.notifs = notifs0
			o.State.height = h0
			o.State.store = store0
			o.State.gas = cloneGas(gas0)
			if o.panicked {
				return TupleV{[]Value{BoolV{tFalse}, NullV{}}}, false
			}
			v := o.val
			if it, ok := v.(IterV); ok { // iterators are drained into lists
				obj := o.State.heap[it.id].(IterObj)
				v = ListV{e.alloc(o.State, ArrObj{append([]Value(nil), obj.items[obj.pos+1:]...)})}
			}
			return TupleV{[]Value{BoolV{tTrue}, v}}, false
		}
		if o.panicked { // VM fault: the whole transaction is reverted
			o.State.store, o.State.notifs = store0, nil
			o.State.gas = cloneGas(gas0)
			return TupleV{[]Value{BoolV{tFalse}, NullV{}}}, false
		}
		v := o.val
		if it, ok := v.(IterV); ok {
			obj := o.State.heap[it.id].(IterObj)
			v = ListV{e.alloc(o.State, ArrObj{append([]Value(nil), obj.items[obj.pos+1:]...)})}
		}
		return TupleV{[]Value{BoolV{tTrue}, v}}, false
	})
	return next, fin, false
}

func cloneGas(g map[string]*T) map[string]*T {
	n := make(map[string]*T, len(g))
	for k, v := range g {
		n[k] = v
	}
	return n
}

func showArgs(a []any) string {
	var parts []string
	for _, x := range a {
		switch v := x.(type) {
		case []byte:
			if len(v) > 24 {
				parts = append(parts, fmt.Sprintf("%x…(%d)", v[:8], len(v)))
			} else {
				parts = append(parts, fmt.Sprintf("%q", v))
			}
		case *big.Int:
			parts = append(parts, v.String())
		default:
			str := fmt.Sprint(v)
			if len(str) > 60 {
				str = str[:60] + "…"
			}
			parts = append(parts, str)
		}
	}
	return strings.Join(parts, ", ")
}

// txEffects: did the last transaction change anything observable (storage contents, GAS ledger, notifications)?
func (e *Engine) txEffects(s *St) *T {
	r := tFalse
	for n := s.notifs; n != nil; n = n.prev {
		r = Or(r, n.g())
	}
	// storage: every entry appended since the start of the transaction, compared with the value before
	for n := s.store; n != nil && n != s.txStore0; n = n.prev {
		old := e.lookupAt(s.txStore0, n.key)
		r = Or(r, And(n.g(), Not(valEqOpt(n.val, old))))
	}
	for k, v := range s.gas {
		o, ok := s.txGas0[k]
		if !ok {
			o = I(0)
		}
		r = Or(r, Not(Eq(v, o)))
	}
	return r
}

type optVal struct {
	cond *T
	val  Value // nil = absent
}

// lookupAt: the value stored under key in the given log (a list of guarded alternatives).
func (e *Engine) lookupAt(st *storeNode, key []*T) []optVal {
	var out []optVal
	none := tTrue
	for n := st; n != nil; n = n.prev {
		eq := And(n.g(), bytesEq(n.key, key))
		if eq.isC() && !eq.b {
			continue
		}
		out = append(out, optVal{And(none, eq), n.val})
		if eq.isC() && eq.b {
			return out
		}
		none = And(none, Not(eq))
	}
	return append(out, optVal{none, nil})
}

func valEqOpt(v Value, alts []optVal) *T {
	r := tFalse
	for _, a := range alts {
		var eq *T
		switch {
		case v == nil && a.val == nil:
			eq = tTrue
		case v == nil || a.val == nil:
			eq = tFalse
		default:
			eq = valEq(v, a.val)
		}
		r = Or(r, And(a.cond, eq))
	}
	return r
}

// valEq: structural equality of two stored values as a term (different shapes are different).
func valEq(a, b Value) *T {
	switch x := a.(type) {
	case IntV:
		switch y := b.(type) {
		case IntV:
			return Eq(x.t, y.t)
		case BytesV:
			return Eq(x.t, bytesToInt(y.b)) // stored integers are byte strings on the VM
		}
	case BoolV:
		if y, ok := b.(BoolV); ok {
			return Eq(x.t, y.t)
		}
	case BytesV:
		switch y := b.(type) {
		case BytesV:
			return bytesEq(x.b, y.b)
		case IntV:
			return Eq(bytesToInt(x.b), y.t)
		}
	case NullV:
		if _, ok := b.(NullV); ok {
			return tTrue
		}
	case SerV:
		if y, ok := b.(SerV); ok {
			return valEq(x.v, y.v)
		}
	case StructV:
		if y, ok := b.(StructV); ok && len(x.f) == len(y.f) {
			r := tTrue
			for i := range x.f {
				r = And(r, valEq(x.f[i], y.f[i]))
			}
			return r
		}
		if y, ok := b.(FrozenList); ok && len(x.f) == len(y.e) {
			r := tTrue
			for i := range x.f {
				r = And(r, valEq(x.f[i], y.e[i]))
			}
			return r
		}
	case FrozenList:
		if y, ok := b.(FrozenList); ok && len(x.e) == len(y.e) {
			r := tTrue
			for i := range x.e {
				r = And(r, valEq(x.e[i], y.e[i]))
			}
			return r
		}
		if y, ok := b.(StructV); ok && len(x.e) == len(y.f) {
			r := tTrue
			for i := range x.e {
				r = And(r, valEq(x.e[i], y.f[i]))
			}
			return r
		}
	}
	return tFalse
}


// invokeGas: a transaction (or read) on the native GAS contract itself.
func (e *Engine) invokeGas(s *St, in *ssa.Call, ip int, kind, method string, margs []Value, pending []signer) ([]succ, []Out, bool) {
	if method == "balanceOf" {
		h := cStr(margs[0])
		s.env[in] = TupleV{[]Value{BoolV{tTrue}, IntV{gasOf(s.State, h)}}}
		return nil, nil, true
	}
	if method != "transfer" || kind != "vInvoke" || len(margs) != 4 {
		panic("GAS stub: only transfer/4 and balanceOf are modelled")
	}
	e.cur = -1
	e.callers = []int{-1}
	e.signers = append([]signer{{tTrue, constBytes(string(e.world.payer.ScriptHash().BytesBE())).b}}, pending...)
	e.txTime = Add(s.lastTime, I(1))
	store0, gas0 := s.store, cloneGas(s.gas)
	s.State.lastTime = e.txTime
	s.State.notifs = nil
	s.State.height = Add(s.height, I(1))
	s.State.txStore0, s.State.txGas0 = store0, gas0
	e.roDepth = 0
	next, fin := e.gasTransfer(s, in, ip, margs[0], margs[1], margs[2], margs[3], false, func(ok bool) Value {
		return TupleV{[]Value{BoolV{tTrue}, BoolV{B(ok)}}}
	})
	e.stats.paths += len(next) + len(fin)
	// a fault inside the call-back reverts the whole transaction
	for _, o := range fin {
		o.State.store, o.State.notifs = store0, nil
		o.State.gas = cloneGas(gas0)
		st := &St{State: o.State, blk: s.blk, ip: ip + 1, env: cloneEnv(s.env)}
		st.env[in] = TupleV{[]Value{BoolV{tFalse}, NullV{}}}
		next = append(next, succ{st, nil})
	}
	return next, nil, false
}
