package main

import (
	"fmt"
	"math/big"
	"strings"
)

// Hash-consed SMT terms (sort Int 'I' / Bool 'B'); structural sharing keeps merged states linear.
type T struct {
	id   int
	op   string
	args []*T
	n    *big.Int
	b    bool
	name string
	sort byte
	lo, hi *big.Int // variables only: range asserted with the declaration
}

var (
	table  = map[string]*T{}
	nextID int
	tTrue  = mk(&T{op: "const", b: true, sort: 'B'})
	tFalse = mk(&T{op: "const", b: false, sort: 'B'})
)

func key(t *T) string {
	switch t.op {
	case "const":
		if t.sort == 'B' {
			return fmt.Sprint("cb", t.b)
		}
		return "ci" + t.n.String()
	case "var":
		return "v" + t.name
	}
	var sb strings.Builder
	sb.WriteString(t.op)
	for _, a := range t.args {
		fmt.Fprintf(&sb, ",%d", a.id)
	}
	return sb.String()
}

func mk(t *T) *T {
	k := key(t)
	if x, ok := table[k]; ok {
		return x
	}
	nextID++
	t.id = nextID
	table[k] = t
	return t
}

func I(n int64) *T            { return mk(&T{op: "const", n: big.NewInt(n), sort: 'I'}) }
func IB(n *big.Int) *T        { return mk(&T{op: "const", n: new(big.Int).Set(n), sort: 'I'}) }
func B(b bool) *T             { if b { return tTrue }; return tFalse }
func Var(n string, s byte) *T { return mk(&T{op: "var", name: n, sort: s}) }

// VarR: an integer variable with an inclusive range.
func VarR(n string, lo, hi *big.Int) *T { return mk(&T{op: "var", name: n, sort: 'I', lo: lo, hi: hi}) }
func VarByte(n string) *T              { return VarR(n, big.NewInt(0), big.NewInt(255)) }
func (t *T) isC() bool        { return t.op == "const" }

func app(op string, sort byte, args ...*T) *T { return mk(&T{op: op, args: args, sort: sort}) }

func Add(a, b *T) *T {
	if a.isC() && b.isC() {
		return IB(new(big.Int).Add(a.n, b.n))
	}
	if a.isC() && a.n.Sign() == 0 {
		return b
	}
	if b.isC() && b.n.Sign() == 0 {
		return a
	}
	return app("+", 'I', a, b)
}
func Sub(a, b *T) *T {
	if a.isC() && b.isC() {
		return IB(new(big.Int).Sub(a.n, b.n))
	}
	if b.isC() && b.n.Sign() == 0 {
		return a
	}
	return app("-", 'I', a, b)
}
func Eq(a, b *T) *T {
	if a == b {
		return tTrue
	}
	// a ranged variable can never equal a constant outside its range (bytes vs separators, digits vs letters ...)
	if a.op == "var" && b.isC() && a.sort == 'I' && ((a.lo != nil && b.n.Cmp(a.lo) < 0) || (a.hi != nil && b.n.Cmp(a.hi) > 0)) {
		return tFalse
	}
	if b.op == "var" && a.isC() && b.sort == 'I' && ((b.lo != nil && a.n.Cmp(b.lo) < 0) || (b.hi != nil && a.n.Cmp(b.hi) > 0)) {
		return tFalse
	}
	if a.isC() && b.isC() {
		if a.sort == 'B' {
			return B(a.b == b.b)
		}
		return B(a.n.Cmp(b.n) == 0)
	}
	if a.sort == 'B' {
		if a.isC() {
			if a.b {
				return b
			}
			return Not(b)
		}
		if b.isC() {
			if b.b {
				return a
			}
			return Not(a)
		}
	}
	if a.id > b.id {
		a, b = b, a
	}
	return app("=", 'B', a, b)
}
func Lt(a, b *T) *T {
	if a.isC() && b.isC() {
		return B(a.n.Cmp(b.n) < 0)
	}
	return app("<", 'B', a, b)
}
func Le(a, b *T) *T {
	if a.isC() && b.isC() {
		return B(a.n.Cmp(b.n) <= 0)
	}
	return app("<=", 'B', a, b)
}
func Not(a *T) *T {
	if a.isC() {
		return B(!a.b)
	}
	if a.op == "not" {
		return a.args[0]
	}
	return app("not", 'B', a)
}
func And(a, b *T) *T {
	if a == b {
		return a
	}
	if a.isC() {
		if a.b {
			return b
		}
		return tFalse
	}
	if b.isC() {
		if b.b {
			return a
		}
		return tFalse
	}
	if a == Not(b) {
		return tFalse
	}
	return app("and", 'B', a, b)
}
func Or(a, b *T) *T {
	if a == b {
		return a
	}
	if a.isC() {
		if a.b {
			return tTrue
		}
		return b
	}
	if b.isC() {
		if b.b {
			return tTrue
		}
		return a
	}
	if a == Not(b) {
		return tTrue
	}
	return app("or", 'B', a, b)
}
func Ite(c, a, b *T) *T {
	if c.isC() {
		if c.b {
			return a
		}
		return b
	}
	if a == b {
		return a
	}
	if a.sort == 'B' {
		if a.isC() && b.isC() { // a != b
			if a.b {
				return c
			}
			return Not(c)
		}
		if a.isC() {
			if a.b {
				return Or(c, b)
			}
			return And(Not(c), b)
		}
		if b.isC() {
			if b.b {
				return Or(Not(c), a)
			}
			return And(c, a)
		}
	}
	return app("ite", a.sort, c, a, b)
}

func sortName(s byte) string {
	if s == 'B' {
		return "Bool"
	}
	return "Int"
}

// emit prints the DAG below the given roots as declare-const / define-fun lines and
// returns the name of each root.
func emit(sb *strings.Builder, done map[int]bool, t *T) string {
	switch t.op {
	case "const":
		if t.sort == 'B' {
			if t.b {
				return "true"
			}
			return "false"
		}
		if t.n.Sign() < 0 {
			return "(- " + new(big.Int).Neg(t.n).String() + ")"
		}
		return t.n.String()
	case "var":
		if !done[t.id] {
			done[t.id] = true
			fmt.Fprintf(sb, "(declare-const |%s| %s)\n", t.name, sortName(t.sort))
		}
		return "|" + t.name + "|"
	}
	name := fmt.Sprintf("n%d", t.id)
	if done[t.id] {
		return name
	}
	args := make([]string, len(t.args))
	for i, a := range t.args {
		args[i] = emit(sb, done, a)
	}
	done[t.id] = true
	// z3 expands define-fun as a macro (20x slower on shared DAGs): name the node with a constant instead
	fmt.Fprintf(sb, "(declare-const %s %s)\n(assert (= %s (%s %s)))\n", name, sortName(t.sort), name, smtOp(t.op), strings.Join(args, " "))
	return name
}

func smtOp(op string) string {
	if op == "bdd" {
		return "ite"
	}
	return op
}

func dagSize(t *T, seen map[int]bool) int {
	if seen[t.id] {
		return 0
	}
	seen[t.id] = true
	n := 1
	for _, a := range t.args {
		n += dagSize(a, seen)
	}
	return n
}

func Mul(a, b *T) *T {
	if a.isC() && b.isC() {
		return IB(new(big.Int).Mul(a.n, b.n))
	}
	if a.isC() && a.n.Cmp(big.NewInt(1)) == 0 {
		return b
	}
	if b.isC() && b.n.Cmp(big.NewInt(1)) == 0 {
		return a
	}
	if (a.isC() && a.n.Sign() == 0) || (b.isC() && b.n.Sign() == 0) {
		return I(0)
	}
	return app("*", 'I', a, b)
}

// QuoT is Go/NeoVM truncated division; SMT-LIB div is floored for positive divisors.
func QuoT(a, b *T) *T {
	if a.isC() && b.isC() && b.n.Sign() != 0 {
		return IB(new(big.Int).Quo(a.n, b.n))
	}
	if b.isC() && b.n.Cmp(big.NewInt(1)) == 0 {
		return a
	}
	pos := app("div", 'I', a, b)
	neg := Sub(I(0), app("div", 'I', Sub(I(0), a), b))
	if b.isC() && b.n.Sign() > 0 {
		return Ite(Le(I(0), a), pos, neg)
	}
	// general case: sign analysis on both operands
	absq := app("div", 'I', app("abs", 'I', a), app("abs", 'I', b))
	sameSign := Eq(Le(I(0), a), Lt(I(0), b))
	return Ite(sameSign, absq, Sub(I(0), absq))
}

// ModT is Go/NeoVM remainder (sign of the dividend).
func ModT(a, b *T) *T {
	if a.isC() && b.isC() && b.n.Sign() != 0 {
		return IB(new(big.Int).Rem(a.n, b.n))
	}
	return Sub(a, Mul(b, QuoT(a, b)))
}

// emitScoped: variables are declared globally (decl), every other node is defined inside the current
// push scope (q) unless already defined there.
func emitScoped(decl, q *strings.Builder, declared, local map[int]bool, t *T) string {
	switch t.op {
	case "const":
		return emit(decl, declared, t)
	case "var":
		return emit(decl, declared, t)
	}
	name := fmt.Sprintf("n%d", t.id)
	if local[t.id] {
		return name
	}
	args := make([]string, len(t.args))
	for i, a := range t.args {
		args[i] = emitScoped(decl, q, declared, local, a)
	}
	local[t.id] = true
	fmt.Fprintf(q, "(declare-const %s %s)\n(assert (= %s (%s %s)))\n", name, sortName(t.sort), name, smtOp(t.op), strings.Join(args, " "))
	return name
}

// spine returns the conjuncts of a left-nested conjunction chain, outermost first.
func spine(t *T) []*T {
	var rev []*T
	for t.op == "and" {
		rev = append(rev, t.args[1])
		t = t.args[0]
	}
	rev = append(rev, t)
	for l, r := 0, len(rev)-1; l < r; l, r = l+1, r-1 {
		rev[l], rev[r] = rev[r], rev[l]
	}
	return rev
}

// OrFactored builds a ∨ b for two path conditions that share a prefix of conjuncts: prefix ∧ (restA ∨ restB).
func OrFactored(a, b *T) *T {
	sa, sb := spine(a), spine(b)
	k := 0
	for k < len(sa) && k < len(sb) && sa[k] == sb[k] {
		k++
	}
	return And(conj(sa[:k]), Or(conj(sa[k:]), conj(sb[k:])))
}

func conj(xs []*T) *T {
	r := tTrue
	for _, x := range xs {
		r = And(r, x)
	}
	return r
}
