package main

import (
	"fmt"
	"os"
)

func usage() {
	fmt.Println(`usage:
  neosym check <Cxx> [--tier quick|thorough] [--only HarnessFunc]
  neosym replay <path>
  neosym job <HarnessFunc> <tier> [params...]
  neosym list`)
	os.Exit(2)
}

func main() {
	if r := os.Getenv("NEOSYM_REPO"); r != "" {
		repoRoot = r
	}
	if r := os.Getenv("NEOSYM_VERIF"); r != "" {
		verifRoot = r
	}
	if len(os.Args) < 2 {
		usage()
	}
	switch os.Args[1] {
	case "check":
		if len(os.Args) < 3 {
			usage()
		}
		tier := os.Getenv("VERIF_TIER")
		only := ""
		for i := 3; i < len(os.Args); i++ {
			switch os.Args[i] {
			case "--tier":
				i++
				tier = os.Args[i]
			case "--only":
				i++
				only = os.Args[i]
			}
		}
		if tier != "thorough" {
			tier = "quick"
		}
		os.Exit(checkMain(os.Args[2], tier, only))
	case "replay":
		os.Exit(replayMain(os.Args[2]))
	case "job":
		jobMain(os.Args[2:])
	case "list":
		for _, h := range registry {
			fmt.Println(h.Prop, h.Pkg, h.Func, h.Link, h.Quick, h.Thorough)
		}
	default:
		usage()
	}
}
