package main

import (
	"fmt"
	"os"
	"runtime/pprof"
	"time"
)

func usage() {
	fmt.Println(`usage:
  neosym check <Cxx> [--tier quick|thorough] [--only HarnessFunc]
  neosym replay <path>
  neosym job <HarnessFunc> <tier> [params...]
  neosym list`)
	os.Exit(2)
}

func main() {
	if r := os.Getenv("NEOSYM_REPO"); r != "" {
		repoRoot = r
	}
	if r := os.Getenv("NEOSYM_VERIF"); r != "" {
		verifRoot = r
	}
	if len(os.Args) < 2 {
		usage()
	}
	switch os.Args[1] {
	case "check":
		if len(os.Args) < 3 {
			usage()
		}
		tier := os.Getenv("VERIF_TIER")
		only := ""
		for i := 3; i < len(os.Args); i++ {
			switch os.Args[i] {
			case "--tier":
				i++
				tier = os.Args[i]
			case "--only":
				i++
				only = os.Args[i]
			}
		}
		if tier != "thorough" {
			tier = "quick"
		}
		os.Exit(checkMain(os.Args[2], tier, only))
	case "replay":
		os.Exit(replayMain(os.Args[2]))
	case "job":
		if p := os.Getenv("NEOSYM_CPUPROFILE"); p != "" {
			f, _ := os.Create(p)
			pprof.StartCPUProfile(f)
			defer pprof.StopCPUProfile()
			go func() { // profile runs that do not finish
				time.Sleep(30 * time.Second)
				pprof.StopCPUProfile()
				fmt.Fprintln(os.Stderr, "merge failures:", mergeFails)
				os.Exit(3)
			}()
		}
		jobMain(os.Args[2:])
	case "witnesses":
		os.Exit(witnessesMain(os.Args[2]))
	case "selfcheck":
		os.Exit(selfcheck())
	case "list":
		for _, h := range registry {
			fmt.Println(h.Prop, h.Pkg, h.Func, h.Link, h.Quick, h.Thorough)
		}
	default:
		usage()
	}
}

// selfcheck: the solvers answer and agree on a tiny query, the pinned compiler compiles a contract of the
// working tree, a chain can be started.
func selfcheck() int {
	s := newSolver()
	defer s.close()
	x := VarR("selfcheck_x", nil, nil)
	r1, _ := s.check(Le(I(0), x), []*T{Lt(x, I(0))}, nil)
	r2, m := s.check(Le(I(0), x), []*T{Lt(x, I(5))}, []*T{x})
	r3, _ := s.askStandalone(s.secondary(1), Le(I(0), x), []*T{Lt(x, I(0))}, nil)
	r4, _ := s.askStandalone(s.secondary(2), Le(I(0), x), []*T{Lt(x, I(0))}, nil)
	fmt.Println("solvers:", r1, r2, m, r3, r4)
	if r1 != "unsat" || r2 != "sat" || r3 != "unsat" || r4 != "unsat" {
		fmt.Println("selfcheck: solver portfolio not usable")
		return 1
	}
	msg := guard(func() {
		w := newWorld(4, true)
		defer w.close()
		fmt.Printf("chain up, committee of 4; balance contract hash %x\n", w.hashOf("balance"))
	})
	if msg != "" {
		fmt.Println("selfcheck:", msg)
		return 1
	}
	fmt.Println("selfcheck ok")
	return 0
}
