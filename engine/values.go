package main

import (
	"fmt"
	"go/types"
)

// ---------- values (NeoVM-like, dynamically typed) ----------
type Value interface{}
type IntV struct{ t *T }
type BoolV struct{ t *T }
type BytesV struct{ b []*T } // concrete length, symbolic content
type NullV struct{}
type UnitV struct{}
type StructV struct{ f []Value }
type TupleV struct{ f []Value }
type SerV struct{ v Value }     // std.Serialize box
type ListV struct{ id int }     // reference to heap ArrObj (non-byte slices, Go arrays)
type PtrV struct { // pointer into a heap object, or (id==-1) into the byte buffer bound to SSA value ref
	id   int
	path []int
	ref  interface{}
	sym  *T // symbolic element index into an array object (ite-expanded on load/store)
}
type IterV struct{ id int } // reference to heap IterObj

// heap objects (immutable; replaced on write so that state copies are shallow)
type CellObj struct{ v Value }
type ArrObj struct{ e []Value }
type IterObj struct {
	items []Value
	pos   int
}

func bytesEq(a, b []*T) *T {
	if len(a) != len(b) {
		return tFalse
	}
	r := tTrue
	for i := range a {
		r = And(r, Eq(a[i], b[i]))
	}
	return r
}

func constBytes(s string) BytesV {
	b := make([]*T, len(s))
	for i := 0; i < len(s); i++ {
		b[i] = I(int64(s[i]))
	}
	return BytesV{b}
}

func isConstBytes(b BytesV) (string, bool) {
	out := make([]byte, len(b.b))
	for i, t := range b.b {
		if !t.isC() {
			return "", false
		}
		out[i] = byte(t.n.Int64())
	}
	return string(out), true
}

func zeroOf(t types.Type) Value {
	switch u := t.Underlying().(type) {
	case *types.Basic:
		if u.Info()&types.IsBoolean != 0 {
			return BoolV{tFalse}
		}
		if u.Info()&types.IsString != 0 {
			return BytesV{nil}
		}
		return IntV{I(0)}
	case *types.Struct:
		f := make([]Value, u.NumFields())
		for i := range f {
			f[i] = zeroOf(u.Field(i).Type())
		}
		return StructV{f}
	case *types.Array: // a byte array VALUE is a byte string (Go arrays have value semantics)
		if bt, ok := u.Elem().Underlying().(*types.Basic); ok && bt.Kind() == types.Uint8 {
			z := make([]*T, u.Len())
			for i := range z {
				z[i] = I(0)
			}
			return BytesV{z}
		}
	}
	return NullV{}
}

// mergeVal builds ite(c, a, b) when both values have the same shape.
func mergeVal(c *T, a, b Value) (Value, bool) {
	switch x := a.(type) {
	case IntV:
		if y, ok := b.(IntV); ok {
			return IntV{Ite(c, x.t, y.t)}, true
		}
	case BoolV:
		if y, ok := b.(BoolV); ok {
			return BoolV{Ite(c, x.t, y.t)}, true
		}
	case BytesV:
		if y, ok := b.(BytesV); ok && len(x.b) == len(y.b) {
			r := make([]*T, len(x.b))
			for i := range r {
				r[i] = Ite(c, x.b[i], y.b[i])
			}
			return BytesV{r}, true
		}
	case NullV:
		if _, ok := b.(NullV); ok {
			return x, true
		}
	case UnitV:
		if _, ok := b.(UnitV); ok {
			return x, true
		}
	case StructV:
		if y, ok := b.(StructV); ok && len(x.f) == len(y.f) {
			return mergeVals(c, x.f, y.f, func(f []Value) Value { return StructV{f} })
		}
	case TupleV:
		if y, ok := b.(TupleV); ok && len(x.f) == len(y.f) {
			return mergeVals(c, x.f, y.f, func(f []Value) Value { return TupleV{f} })
		}
	case SerV:
		if y, ok := b.(SerV); ok {
			if m, ok := mergeVal(c, x.v, y.v); ok {
				return SerV{m}, true
			}
		}
	case ListV:
		if y, ok := b.(ListV); ok && x.id == y.id {
			return x, true
		}
	case FrozenList:
		if y, ok := b.(FrozenList); ok && len(x.e) == len(y.e) {
			return mergeVals(c, x.e, y.e, func(f []Value) Value { return FrozenList{f} })
		}
	case PtrV:
		if y, ok := b.(PtrV); ok && x.id == y.id && fmt.Sprint(x.path) == fmt.Sprint(y.path) {
			return x, true
		}
	case IterV:
		if y, ok := b.(IterV); ok && x.id == y.id {
			return x, true
		}
	case MapV:
		if y, ok := b.(MapV); ok && x.id == y.id {
			return x, true
		}
	case LocalsV:
		if y, ok := b.(LocalsV); ok {
			ids := append([]int(nil), x.ids...)
			have := map[int]bool{}
			for _, i := range ids {
				have[i] = true
			}
			for _, i := range y.ids {
				if !have[i] {
					ids = append(ids, i)
				}
			}
			return LocalsV{ids}, true
		}
	case DeferV:
		if y, ok := b.(DeferV); ok && len(x.list) == len(y.list) {
			return x, true
		}
	case ClosureV:
		if y, ok := b.(ClosureV); ok && x.fn == y.fn {
			return mergeVals(c, x.bind, y.bind, func(f []Value) Value { return ClosureV{x.fn, f} })
		}
	}
	return nil, false
}

func mergeVals(c *T, a, b []Value, mk func([]Value) Value) (Value, bool) {
	r := make([]Value, len(a))
	for i := range a {
		m, ok := mergeVal(c, a[i], b[i])
		if !ok {
			return nil, false
		}
		r[i] = m
	}
	return mk(r), true
}

// ClosureV is a Go function value with captured variables (native-Go mode).
type ClosureV struct {
	fn   interface{} // *ssa.Function
	bind []Value
}

// MapV references an insertion-ordered map on the heap (NeoVM maps keep insertion order).
type MapV struct{ id int }
type MapObj struct {
	keys []Value
	vals []Value
}
