package alphabet

// C19 emit: Alphabet contract #idx (param 2) of a committee of n (param 0) holds g GAS (symbolic); N Inner
// Ring nodes (param 1). emit may be triggered only by Alphabet node #idx and splits the balance exactly.
func VerifC19Emit() {
	n, irn, idx := vParam(0), vParam(1), vParam(2)
	vCommittee(n)
	vDeploy("proxy")
	proxy, self := vContractHash("proxy"), vContractHash("alphabet")
	// param 4 (if given): the number of Alphabet contracts the deployment recorded, when it is not the current
	// committee size: a contract whose index is not below the committee size has NO node of its own (seven
	// contracts after the committee shrank to four) and nobody may trigger it
	total := n
	if vParam(4) > 0 {
		total = vParam(4)
	}
	if vParam(5) == 1 {
		// param 5 = 1: a MIXED deployment — the Netmap address is left out (resolved through NNS), the Proxy address
		// is given explicitly and is NOT the contract NNS knows as "proxy": the explicit one is what emit must pay
		vDeploy("netmap", false, nil, nil, nil, []any{})
		proxy = vAcct("explicit-proxy")
		vDeploy("alphabet", false, nil, proxy, "Az", idx, total)
	} else {
		vDeploy("alphabet", false, vAcct("netmap-placeholder"), proxy, "Az", idx, total)
	}
	vSetIR(irn)
	g := vInt("g")
	vAssume(g >= 0 && g <= 1000000000000)
	vFundGas(self, g)
	who := vInt("invoker") // committee member index, n = a stranger
	vAssume(who >= 0 && who <= n)
	// param 3 = 1: the Inner Ring is re-designated (ir* -> nir*, same size) in the block right before the
	// emission; the nodes to pay are the ones in force now, i.e. the new ones, and a dropped node gets nothing
	pfx := "ir"
	if vParam(3) == 1 {
		pfx = "nir"
		vSetIRNamed(pfx, irn)
	}
	for i := 0; i < n; i++ {
		vSign(vMemberAcct(i), who == i)
	}
	vSign(vAcct("stranger"), true)
	ok, _ := vInvoke("alphabet", "emit")
	pg, cg := vGasOf(proxy), vGasOf(self)
	first, last := vGasOf(vAcct(pfx+"0")), vGasOf(vAcct(pfx+"0"))
	if irn > 1 {
		last = vGasOf(vAcct(pfx + "1"))
	}
	if irn > 2 {
		last = vGasOf(vAcct(pfx + "2"))
	}
	if vParam(3) == 1 {
		vAssert(vGasOf(vAcct("ir0")) == 0, "C19/a-node-the-last-designation-dropped-gets-nothing")
	}
	vAssert(ok == (who == idx && idx < n && g/2 > 0), "C19/emit-only-by-its-own-alphabet-node-and-with-gas")
	if idx < n {
		vRequire(ok, "emitted")
	} else {
		vCoverIf(!ok, "contract-without-a-node-of-its-own-refuses")
	}
	if ok {
		vCoverIf(g > 1000000000 && g%2 == 1 && ((g-g/2)*7)%8 != 0 && (irn == 1 || ((g-g/2)*7/8)%irn != 0), "emitted-with-every-rounding-step-inexact")
		half := g / 2
		per := (g - half) * 7 / 8 / irn
		vAssert(pg == half, "C19/proxy-gets-floor(g/2)")
		if vParam(5) == 1 {
			vAssert(vGasOf(vContractHash("proxy")) == 0, "C19/proxy-gets-floor(g/2)")
		}
		vAssert(first == per && last == per, "C19/each-inner-ring-node-gets-its-share")
		vAssert(cg == g-half-irn*per && cg >= 0, "C19/remainder-stays-nothing-created-or-lost")
	} else {
		vAssert(pg == 0 && cg == g && first == 0, "C19/failed-emit-moves-nothing")
	}
}

// C19 payments: Proxy, Processing and Alphabet take GAS through the GAS contract and reject direct calls of
// their payment call-back.
func VerifC19Payments() {
	vDeploy("proxy")
	vDeploy("neofs", false, vContractHash("processing"), []any{vKey("al0")}, []any{})
	vDeploy("processing", vContractHash("neofs"))
	vDeploy("alphabet", false, vAcct("netmap-placeholder"), vContractHash("proxy"), "Az", 0, 1)
	user := vAcct("user")
	amt := vInt("amount")
	vAssume(amt >= 0 && amt <= 1000)
	vFundGas(user, 3000)
	names := []string{"proxy", "processing", "alphabet"}
	for _, c := range names {
		vSign(user, true)
		ok, r := vInvoke("gas", "transfer", user, vContractHash(c), amt, nil)
		vAssert(ok && r.(bool) && vGasOf(vContractHash(c)) == amt, "C19/governance-contracts-accept-GAS")
		vSign(user, true)
		direct, _ := vInvoke(c, "onNEP17Payment", user, amt, nil)
		vAssert(!direct, "C19/payment-call-back-rejects-anything-but-the-token-contracts")
	}
	vCover("three-contracts-paid")
}
