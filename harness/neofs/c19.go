package neofs

const gasUnit = 100000000

// C19 deposit: a GAS transfer of a symbolic amount with receiver data of the length given by param 1 to the
// NeoFS contract (param 0: 1 = Notary enabled).
func VerifC19Deposit() {
	deployNeoFS(3, vParam(0) == 0)
	vDeploy("processing", vContractHash("neofs"))
	self, user := vContractHash("neofs"), vAcct("user")
	funds, amt := vInt("funds"), vInt("amount")
	vAssume(funds >= 0 && funds <= 20000*gasUnit)
	vFundGas(user, funds)
	dlen := vParam(1)
	data := vBytes("receiver", dlen)
	vAssume(dlen != 2 || data[0] != 0x57 || data[1] != 0x0b) // the internal "ignore" marker is not a user input
	signs := vBool("userSigns")
	vSign(user, signs)
	ok, r := vInvoke("gas", "transfer", user, self, amt, data)
	moved := ok && r.(bool)
	want := signs && amt > 0 && amt <= funds && amt <= 9000*gasUnit && (dlen == 0 || dlen == 20)
	vAssert(moved == want, "C19/deposit-accepted-exactly-for-GAS-amounts-in-(0,9000]-with-well-formed-receiver")
	deps := vEvents("neofs", "Deposit")
	if vParam(1) == 0 || vParam(1) == 20 {
		vRequire(moved, "deposit-accepted")
	}
	if moved {
		vAssert(vGasOf(self) == amt && vGasOf(user) == funds-amt, "C19/deposit-moves-exactly-the-amount")
		vAssert(len(deps) == 1 && vEq(deps[0][0].([]byte), user) && deps[0][1].(int) == amt, "C19/deposit-notification-matches-the-GAS-received")
		if dlen == 20 {
			vAssert(vEq(deps[0][2].([]byte), data), "C19/deposit-notification-names-the-receiver")
		} else {
			vAssert(vEq(deps[0][2].([]byte), user), "C19/deposit-notification-names-the-receiver")
		}
	} else {
		vAssert(vGasOf(self) == 0 && vGasOf(user) == funds && len(deps) == 0, "C19/refused-deposit-changes-nothing")
	}
	// nothing but GAS: a direct call of the call-back is not a deposit
	vSign(user, true)
	direct, _ := vInvoke("neofs", "onNEP17Payment", user, 5, nil)
	vAssert(!direct && len(vEvents("neofs", "Deposit")) == 0, "C19/deposit-only-through-the-GAS-contract")
}

// C19 withdraw / candidate / cheque accounting (param 0: 1 = Notary enabled, param 1: number of Alphabet keys).
func VerifC19Accounting() {
	notary, n := vParam(0) == 1, vParam(1)
	fee, cfee := vInt("withdrawFee"), vInt("candidateFee")
	// the withdraw fee may be configured NEGATIVE (a byte string with its top bit set reads as one): no withdrawal
	// can then be paid for, and none may be accepted for free
	vAssume(fee >= -5 && fee <= 1000 && cfee >= 0 && cfee <= 1000)
	vDeploy("neofs", !notary, vContractHash("processing"), alphabetKeys(n), []any{[]byte("InnerRingCandidateFee"), cfee, []byte("WithdrawFee"), fee})
	vDeploy("processing", vContractHash("neofs"))
	self, proc := vContractHash("neofs"), vContractHash("processing")
	user, cand := vAcct("user"), vAcct("cand")
	funds, cfunds := vInt("userFunds"), vInt("candidateFunds")
	vAssume(funds >= 0 && funds <= 10000 && cfunds >= 0 && cfunds <= 2000)
	vFundGas(user, funds)
	vFundGas(cand, cfunds)

	// deposit d
	d := vInt("deposit")
	vAssume(d > 0 && d <= funds)
	vSign(user, true)
	ok, r := vInvoke("gas", "transfer", user, self, d, nil)
	vAssume(ok && r.(bool))

	// withdraw request
	w := vInt("withdrawAmount")
	signs := vBool("userSignsWithdraw")
	vSign(user, signs)
	done, _ := vInvoke("neofs", "withdraw", user, w)
	total := fee
	if !notary {
		total = fee * n
	}
	vAssert(done == (signs && w >= 0 && w <= 9000 && fee >= 0 && total <= funds-d), "C19/withdraw-accepted-iff-witnessed-in-range-and-fee-payable")
	vCoverIf(!done && signs && fee < 0 && w >= 0 && w <= 9000, "negative-fee-refuses-the-withdrawal")
	userGas := funds - d
	if done {
		vCover("withdraw-requested")
		userGas -= total
		if notary {
			vAssert(vGasOf(proc) == fee, "C19/withdraw-fee-once-to-processing")
		} else {
			vAssert(vGasOf(vAcct(alTags[0])) == fee && vGasOf(vAcct(alTags[n-1])) == fee && vGasOf(proc) == 0, "C19/withdraw-fee-once-per-alphabet-key")
		}
		ev := vEvents("neofs", "Withdraw")
		vAssert(len(ev) == 1 && vEq(ev[0][0].([]byte), user) && ev[0][1].(int) == w*gasUnit, "C19/withdraw-notification")
	} else {
		vAssert(vGasOf(proc) == 0 && vGasOf(vAcct(alTags[0])) == 0, "C19/refused-withdraw-moves-nothing")
	}
	vAssert(vGasOf(user) == userGas && vGasOf(self) == d, "C19/withdraw-charges-exactly-the-fee")

	// candidate registration
	csigns := vBool("candidateSigns")
	vSign(cand, csigns)
	added, _ := vInvoke("neofs", "innerRingCandidateAdd", vKey("cand"))
	vAssert(added == (csigns && cfee <= cfunds), "C19/candidate-added-iff-witnessed-and-fee-payable")
	bal := d
	if added {
		vCover("candidate-added")
		bal += cfee
	}
	vAssert(vGasOf(self) == bal && vGasOf(cand) == cfunds-(bal-d), "C19/candidate-fee-goes-to-the-contract")
	vAssert(len(vEvents("neofs", "Deposit")) == 0, "C19/candidate-fee-is-not-a-deposit")

	// cheque (Notary: the Alphabet multi-signature; without: param n = 1 so that one vote suffices)
	c := vInt("chequeAmount")
	asigns := vBool("alphabetSigns")
	if notary {
		vSign(vAlphabetAcct(), asigns)
	} else {
		vSign(vAcct(alTags[0]), asigns)
	}
	paid, _ := vInvoke("neofs", "cheque", []byte{1, 2, 3}, user, c, []byte{9})
	if notary || n == 1 {
		vAssert(paid == (asigns && c >= 0 && c <= bal), "C19/cheque-paid-iff-approved-and-covered")
	}
	if paid && (notary || n == 1) {
		vCover("cheque-paid")
		bal -= c
		userGas += c
		vAssert(len(vEvents("neofs", "Cheque")) == 1, "C19/cheque-notification")
	}
	vAssert(vGasOf(self) == bal && vGasOf(user) == userGas, "C19/balance-is-received-minus-cheques")
}
