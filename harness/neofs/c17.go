package neofs

var alTags = []string{"al0", "al1", "al2", "al3", "al4", "al5", "al6"}
var stepTags = []string{"1", "2", "3", "4", "5", "6"}

func alphabetKeys(n int) []any {
	var ks []any
	for i := 0; i < n; i++ {
		ks = append(ks, vKey(alTags[i]))
	}
	return ks
}

// deployNeoFS: main-chain NeoFS contract without Notary, n stored Alphabet keys, candidate fee 10, withdraw fee 3.
func deployNeoFS(n int, notaryDisabled bool) {
	vDeploy("neofs", notaryDisabled, vContractHash("processing"), alphabetKeys(n),
		[]any{[]byte("InnerRingCandidateFee"), 10, []byte("WithdrawFee"), 3})
}

// reference model of the two competing ballots
var (
	votedA, votedB [7]bool
	cntA, cntB     int
	lastA, lastB   int
)

// vote: the model's reaction to a vote of Alphabet member c for A (or B) at height h; reports whether the
// decision fires.
func vote(forA bool, c, h, threshold int) bool {
	if forA {
		if cntA > 0 && h-lastA > 20 { // stale ballot: expired
			cntA = 0
			for i := 0; i < 7; i++ {
				votedA[i] = false
			}
		}
		if cntA > 0 && votedA[c] {
			return false
		}
		votedA[c] = true
		cntA++
		lastA = h
		if cntA >= threshold {
			cntA = 0
			for i := 0; i < 7; i++ {
				votedA[i] = false
			}
			return true
		}
		return false
	}
	if cntB > 0 && h-lastB > 20 {
		cntB = 0
		for i := 0; i < 7; i++ {
			votedB[i] = false
		}
	}
	if cntB > 0 && votedB[c] {
		return false
	}
	votedB[c] = true
	cntB++
	lastB = h
	if cntB >= threshold {
		cntB = 0
		for i := 0; i < 7; i++ {
			votedB[i] = false
		}
		return true
	}
	return false
}

// C17: method m (param 0: 0 setConfig, 1 cheque, 2 alphabetUpdate, 3 innerRingCandidateRemove), n stored
// Alphabet keys (param 1), k invocations (param 2) by symbolic callers for one of two symbolic decision ids
// after symbolic block gaps.
func VerifC17Ballots() {
	m, n, k := vParam(0), vParam(1), vParam(2)
	deployNeoFS(n, true)
	threshold := n*2/3 + 1
	self := vContractHash("neofs")
	user, stranger := vAcct("user"), vAcct("stranger")
	candA, candB := vAcct("candA"), vAcct("candB")
	if m == 1 {
		vFundGas(self, 1000)
	}
	lateB := vParam(3) // removal method only: candidate B registers just before step lateB (0: up front), so
	// votes can reach the threshold for a key that is not a candidate (no effect, but the round is over)
	regB, removedA, removedB := false, false, false
	if m == 3 { // two candidates
		vFundGas(candA, 10)
		vFundGas(candB, 10)
		vSign(candA, true)
		ok, _ := vInvoke("neofs", "innerRingCandidateAdd", vKey("candA"))
		vAssume(ok)
		if lateB == 0 {
			vSign(candB, true)
			ok, _ = vInvoke("neofs", "innerRingCandidateAdd", vKey("candB"))
			vAssume(ok)
			regB = true
		}
	}
	cntA, cntB, lastA, lastB = 0, 0, 0, 0
	for i := 0; i < 7; i++ {
		votedA[i], votedB[i] = false, false
	}
	firedA, firedB := 0, 0
	paid := 0
	for s := 0; s < k; s++ {
		c, forA, gap := vInt("caller"+stepTags[s]), vBool("idIsA"+stepTags[s]), vInt("gap"+stepTags[s])
		vAssume(c >= 0 && c <= n) // n = a stranger
		if m == 3 { // a removal vote for a candidate already removed is outside this harness: the history goes
			// on with the other candidate (what a finished removal did to the OTHER ballot shows only then)
			if removedA {
				vAssume(!forA)
			}
			if removedB {
				vAssume(forA)
			}
			if lateB > 0 && s == lateB && !regB {
				vSign(candB, true)
				okb, _ := vInvoke("neofs", "innerRingCandidateAdd", vKey("candB"))
				vAssume(okb)
				regB = true
			}
		}
		vAssume(gap >= 0 && gap <= 25)
		vAdvance(gap)
		for i := 0; i < n; i++ {
			vSign(vAcct(alTags[i]), c == i)
		}
		vSign(stranger, true)
		id, key, val := []byte{0xB0, 2}, []byte("keyB"), []byte("valB")
		cand := vKey("candB")
		if forA {
			id, key, val = []byte{0xA0, 1}, []byte("keyA"), []byte("valA")
			cand = vKey("candA")
		}
		var done bool
		switch m {
		case 0:
			done, _ = vInvoke("neofs", "setConfig", id, key, val)
		case 1:
			done, _ = vInvoke("neofs", "cheque", id, user, 7, []byte{1})
		case 2:
			done, _ = vInvoke("neofs", "alphabetUpdate", id, []any{vKey("al0")})
		case 3:
			done, _ = vInvoke("neofs", "innerRingCandidateRemove", cand)
		}
		h := vHeight()
		if c == n {
			vCover("stranger-invokes")
			vAssert(!done, "C17/invocation-by-a-non-member-is-rejected")
			vAssert(vEventCount() == 0, "C17/rejected-invocation-has-no-effect")
		} else {
			vAssert(done, "C17/member-invocation-is-accepted")
			if vote(forA, c, h, threshold) {
				vCover("decision-fires")
				if forA {
					firedA++
					removedA = true
				} else {
					firedB++
					if regB || m != 3 {
						removedB = true
					}
				}
				switch m {
				case 0:
					vAssert(len(vEvents("neofs", "SetConfig")) == 1, "C17/exactly-one-notification-when-the-threshold-is-reached")
				case 1:
					paid += 7
					vAssert(len(vEvents("neofs", "Cheque")) == 1, "C17/exactly-one-notification-when-the-threshold-is-reached")
				case 2:
					vAssert(len(vEvents("neofs", "AlphabetUpdate")) == 1, "C17/exactly-one-notification-when-the-threshold-is-reached")
				}
			} else {
				vCover("vote-recorded-or-repeated")
				vAssert(vEventCount() == 0, "C17/no-action-before-the-threshold")
			}
		}
		// observable state follows the model
		switch m {
		case 0:
			_, ra := vRead("neofs", "config", []byte("keyA"))
			_, rb := vRead("neofs", "config", []byte("keyB"))
			vAssert((firedA > 0) == (ra != nil) && (firedB > 0) == (rb != nil), "C17/effect-exactly-when-2n/3+1-distinct-members-voted")
			vAssert((firedA > 0) == (ra != nil) && (firedB > 0) == (rb != nil), "C03/vote-collected-action-needs-2n/3+1-distinct-Alphabet-votes")
		case 1:
			vAssert(vGasOf(user) == paid && vGasOf(self) == 1000-paid, "C17/effect-exactly-when-2n/3+1-distinct-members-voted")
			vAssert(vGasOf(user) == paid && vGasOf(self) == 1000-paid, "C03/vote-collected-action-needs-2n/3+1-distinct-Alphabet-votes")
			// the same observation as C19's accounting clause (these jobs are also registered under C19)
			vAssert(vGasOf(user) == paid && vGasOf(self) == 1000-paid, "C19/cheque-paid-exactly-once-per-approval")
		case 2:
			_, r := vRead("neofs", "alphabetList")
			ln := len(r.([]struct{ k []byte }))
			vAssert((firedA+firedB > 0) == (ln == 1), "C17/effect-exactly-when-2n/3+1-distinct-members-voted")
			vAssert((firedA+firedB > 0) == (ln == 1), "C03/vote-collected-action-needs-2n/3+1-distinct-Alphabet-votes")
			if firedA+firedB > 0 {
				return // the electorate changed: end of this history
			}
		case 3:
			_, r := vRead("neofs", "innerRingCandidates")
			ln := len(r.([]struct{ k []byte }))
			want := 0
			if !removedA {
				want++
			}
			if regB && !removedB {
				want++
			}
			vAssert(ln == want, "C17/effect-exactly-when-2n/3+1-distinct-members-voted")
			vAssert(ln == want, "C03/vote-collected-action-needs-2n/3+1-distinct-Alphabet-votes")
			if removedA && removedB {
				return
			}
		}
	}
}

// vote2: the model's reaction to a vote of key #c (of the ORIGINAL list) for ballot A or B when the electorate may
// have changed in between: a repeated vote adds nothing, and the decision fires in the first invocation after
// which the ballot holds at least the CURRENT threshold of distinct voters. (With an unchanged electorate this is
// vote() without staleness: a ballot never holds the threshold before its last vote.)
func vote2(forA bool, c, threshold int) bool {
	if forA {
		if !votedA[c] {
			votedA[c] = true
			cntA++
		}
		if cntA >= threshold {
			cntA = 0
			for i := 0; i < 7; i++ {
				votedA[i] = false
			}
			return true
		}
		return false
	}
	if !votedB[c] {
		votedB[c] = true
		cntB++
	}
	if cntB >= threshold {
		cntB = 0
		for i := 0; i < 7; i++ {
			votedB[i] = false
		}
		return true
	}
	return false
}

// C17 with an electorate that SHRINKS while ballots are pending: three stored keys (threshold 3); symbolic
// members vote twice for configuration ballot A and once for ballot B; all three then vote the Alphabet down
// to its first two keys (threshold 2, the dropped key can no longer vote); then four more invocations by
// symbolic callers, for A, for A with another value, for B, for B with another value. After every invocation
// the two configuration values are what the model says: an accepted decision takes effect exactly once and
// takes only its own ballot away.
func VerifC17ShrunkAlphabet() {
	deployNeoFS(3, true)
	stranger := vAcct("stranger")
	cntA, cntB = 0, 0
	for i := 0; i < 7; i++ {
		votedA[i], votedB[i] = false, false
	}
	idA, idB, idU := []byte{0xA0, 1}, []byte{0xB0, 2}, []byte{0xC0, 3}
	var valA, valB []byte // the configuration values in force (nil: never set)
	n, threshold := 3, 3
	for s := 0; s < 8; s++ {
		if s == 3 { // the Alphabet is voted down to {al0, al1} by all three members
			for i := 0; i < 3; i++ {
				vSign(vAcct(alTags[i]), true)
				ok, _ := vInvoke("neofs", "alphabetUpdate", idU, []any{vKey("al0"), vKey("al1")})
				vAssume(ok)
			}
			_, r := vRead("neofs", "alphabetList")
			vAssume(len(r.([]struct{ k []byte })) == 2)
			n, threshold = 2, 2
			vCover("alphabet-shrunk-with-ballots-pending")
		}
		c := vInt("caller" + stepTags[s%6] + string([]byte{byte('a' + s/6)}))
		vAssume(c >= 0 && c <= 2)
		forA := s == 0 || s == 1 || s == 4 || s == 5
		id, key := idB, []byte("keyB")
		val := []byte{'b', byte('0' + s)}
		if forA {
			id, key = idA, []byte("keyA")
			val = []byte{'a', byte('0' + s)}
		}
		for i := 0; i < 3; i++ {
			vSign(vAcct(alTags[i]), c == i)
		}
		vSign(stranger, true)
		done, _ := vInvoke("neofs", "setConfig", id, key, val)
		if c >= n {
			vCoverIf(s > 3, "dropped-key-votes")
			vAssert(!done && vEventCount() == 0, "C17/invocation-by-a-non-member-is-rejected")
		} else {
			vAssert(done, "C17/member-invocation-is-accepted")
			if vote2(forA, c, threshold) {
				vCoverIf(s > 3, "decision-fires-under-the-new-threshold")
				vAssert(len(vEvents("neofs", "SetConfig")) == 1, "C17/exactly-one-notification-when-the-threshold-is-reached")
				if forA {
					valA = val
				} else {
					valB = val
				}
			} else {
				vAssert(vEventCount() == 0, "C17/no-action-before-the-threshold")
			}
		}
		_, ra := vRead("neofs", "config", []byte("keyA"))
		_, rb := vRead("neofs", "config", []byte("keyB"))
		vAssert((valA == nil) == (ra == nil) && (valB == nil) == (rb == nil), "C17/effect-exactly-when-2n/3+1-distinct-members-voted")
		if valA != nil && ra != nil {
			vAssert(vEq(ra.([]byte), valA), "C17/effect-exactly-when-2n/3+1-distinct-members-voted")
		}
		if valB != nil && rb != nil {
			vAssert(vEq(rb.([]byte), valB), "C17/effect-exactly-when-2n/3+1-distinct-members-voted")
		}
	}
}

