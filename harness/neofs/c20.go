package neofs

// C20 NeoFS (main chain, Notary enabled) configuration store: same scenario as for Netmap.
func VerifC20NeoFSConfig() {
	deployNeoFS(1, false)
	k1, k2, kq := vBytes("k1", vParam(0)), vBytes("k2", vParam(1)), vBytes("kq", vParam(2))
	v1, v2 := vBytes("v1", 2), vBytes("v2", 2)
	vSign(vAcct("stranger"), true)
	ok, _ := vInvoke("neofs", "setConfig", []byte{1}, k1, v1)
	vAssert(!ok, "C20/neofs-setConfig-needs-alphabet")
	vSign(vAlphabetAcct(), true)
	ok, _ = vInvoke("neofs", "setConfig", []byte{1}, k1, v1)
	vAssume(ok)
	vSign(vAlphabetAcct(), true)
	ok, _ = vInvoke("neofs", "setConfig", []byte{2}, k2, v2)
	vAssume(ok)
	_, r := vRead("neofs", "config", kq)
	switch {
	case vEq(kq, k2):
		vCover("query-hits-the-second-key")
		vAssert(r != nil && vEq(r.([]byte), v2), "C20/neofs-config-returns-the-last-value-set")
	case vEq(kq, k1):
		vCover("query-hits-the-first-key")
		vAssert(r != nil && vEq(r.([]byte), v1), "C20/neofs-config-returns-the-last-value-set")
	case vEq(kq, []byte("InnerRingCandidateFee")) || vEq(kq, []byte("WithdrawFee")):
		vAssert(r != nil, "C20/neofs-config-keeps-the-deployment-configuration")
	default:
		vCover("query-misses")
		vAssert(r == nil, "C20/neofs-config-returns-nothing-for-an-unset-key")
	}
	_, l := vRead("neofs", "listConfig")
	recs := l.([]Record)
	// the deployment configured InnerRingCandidateFee and WithdrawFee
	extra := 2
	if vEq(k1, []byte("InnerRingCandidateFee")) || vEq(k1, []byte("WithdrawFee")) {
		extra--
	}
	if !vEq(k1, k2) && (vEq(k2, []byte("InnerRingCandidateFee")) || vEq(k2, []byte("WithdrawFee"))) {
		extra--
	}
	want := 2
	if vEq(k1, k2) {
		want = 1
	}
	vAssert(len(recs) == want+extra, "C20/neofs-listConfig-lists-every-key-once")
	for _, rec := range recs {
		vAssert((vEq(rec.Key, k2) && vEq(rec.Val, v2)) || (vEq(rec.Key, k1) && !vEq(k1, k2) && vEq(rec.Val, v1)) ||
			vEq(rec.Key, []byte("InnerRingCandidateFee")) || vEq(rec.Key, []byte("WithdrawFee")), "C20/neofs-listConfig-is-exact")
	}
}
