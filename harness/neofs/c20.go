package neofs

// C20 NeoFS (main chain, Notary enabled) configuration store: same scenario as for Netmap.
func VerifC20NeoFSConfig() {
	deployNeoFS(1, false)
	k1, k2, kq := vBytes("k1", vParam(0)), vBytes("k2", vParam(1)), vBytes("kq", vParam(2))
	v1, v2 := vBytes("v1", 2), vBytes("v2", 2)
	vSign(vAcct("stranger"), true)
	ok, _ := vInvoke("neofs", "setConfig", []byte{1}, k1, v1)
	vAssert(!ok, "C20/neofs-setConfig-needs-alphabet")
	vSign(vAlphabetAcct(), true)
	ok, _ = vInvoke("neofs", "setConfig", []byte{1}, k1, v1)
	vAssume(ok)
	vSign(vAlphabetAcct(), true)
	ok, _ = vInvoke("neofs", "setConfig", []byte{2}, k2, v2)
	vAssume(ok)
	_, r := vRead("neofs", "config", kq)
	switch {
	case vEq(kq, k2):
		vCover("query-hits-the-second-key")
		vAssert(r != nil && vEq(r.([]byte), v2), "C20/neofs-config-returns-the-last-value-set")
	case vEq(kq, k1):
		vCover("query-hits-the-first-key")
		vAssert(r != nil && vEq(r.([]byte), v1), "C20/neofs-config-returns-the-last-value-set")
	case vEq(kq, []byte("InnerRingCandidateFee")) || vEq(kq, []byte("WithdrawFee")):
		vAssert(r != nil, "C20/neofs-config-keeps-the-deployment-configuration")
	default:
		vCover("query-misses")
		vAssert(r == nil, "C20/neofs-config-returns-nothing-for-an-unset-key")
	}
	_, l := vRead("neofs", "listConfig")
	recs := l.([]Record)
	// the deployment configured InnerRingCandidateFee and WithdrawFee
	extra := 2
	if vEq(k1, []byte("InnerRingCandidateFee")) || vEq(k1, []byte("WithdrawFee")) {
		extra--
	}
	if !vEq(k1, k2) && (vEq(k2, []byte("InnerRingCandidateFee")) || vEq(k2, []byte("WithdrawFee"))) {
		extra--
	}
	want := 2
	if vEq(k1, k2) {
		want = 1
	}
	vAssert(len(recs) == want+extra, "C20/neofs-listConfig-lists-every-key-once")
	for _, rec := range recs {
		vAssert((vEq(rec.Key, k2) && vEq(rec.Val, v2)) || (vEq(rec.Key, k1) && !vEq(k1, k2) && vEq(rec.Val, v1)) ||
			vEq(rec.Key, []byte("InnerRingCandidateFee")) || vEq(rec.Key, []byte("WithdrawFee")), "C20/neofs-listConfig-is-exact")
	}
}

// C20 NeoFS configuration store WITHOUT Notary: one setConfig call is a vote, the value is put when 2n/3+1
// distinct Alphabet nodes voted under one id. param 0: number of Alphabet nodes. The first 2n/3+1 nodes vote
// v1 in; then ONE node (symbolic, possibly one that voted already) re-uses the id with another value after a
// symbolic number of blocks (0..25: within and beyond the 20-block life of a ballot). That call is a single
// vote of a new round, so config / listConfig still return what the accepted vote put.
func VerifC20NeoFSVotedConfig() {
	n := vParam(0)
	deployNeoFS(n, true)
	threshold := n*2/3 + 1
	id, key := []byte{0xC0, 1}, []byte("votedKey")
	v1, v2 := vBytes("v1", 2), vBytes("v2", 2)
	vAssume(!vEq(v1, v2))
	for i := 0; i < threshold; i++ {
		if i == threshold-1 {
			_, r0 := vRead("neofs", "config", key)
			vAssert(r0 == nil, "C20/neofs-voted-config-holds-nothing-before-the-vote-is-accepted")
		}
		vSign(vAcct(alTags[i]), true)
		ok, _ := vInvoke("neofs", "setConfig", id, key, v1)
		vRequire(ok, "alphabet-node-votes")
		if !ok {
			return
		}
	}
	_, r := vRead("neofs", "config", key)
	vRequire(r != nil, "accepted-vote-puts-the-value")
	vAssert(r != nil && vEq(r.([]byte), v1), "C20/neofs-voted-config-returns-the-accepted-value")

	c, gap := vInt("lateCaller"), vInt("gap")
	vAssume(c >= 0 && c < n && gap >= 0 && gap <= 25)
	vAdvance(gap)
	for i := 0; i < n; i++ {
		vSign(vAcct(alTags[i]), c == i)
	}
	vInvoke("neofs", "setConfig", id, key, v2)
	_, r = vRead("neofs", "config", key)
	want := v1
	if threshold == 1 { // a single Alphabet node: its one vote is the decision
		want = v2
	}
	vAssert(r != nil && vEq(r.([]byte), want), "C20/neofs-voted-config-changes-only-when-a-vote-reaches-the-threshold")
	_, l := vRead("neofs", "listConfig")
	recs := l.([]Record)
	vAssert(len(recs) == 3, "C20/neofs-listConfig-lists-every-key-once")
	for _, rec := range recs {
		vAssert((vEq(rec.Key, key) && vEq(rec.Val, want)) || vEq(rec.Key, []byte("InnerRingCandidateFee")) || vEq(rec.Key, []byte("WithdrawFee")),
			"C20/neofs-listConfig-is-exact")
	}
	vCover("late-single-vote-tried")
}
