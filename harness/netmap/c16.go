package netmap

import (
	"github.com/nspcc-dev/neofs-contract/common"
	"github.com/nspcc-dev/neofs-contract/contracts/netmap/nodestate"
)

// C16 migration of a legacy Netmap storage. The storage of a release v in [0.15.4, 0.19.0) is preset raw, in
// the layout that release used, and the real _deploy(data||v, isUpdate=true) of the working tree runs on it:
//   - v < 0.16.0: snapshots are lists of one-field nodes, candidates are {{BLOB}, state};
//   - v < 0.17.0: a 'notary' flag may be present (false, or true with a ballot list), plus 'innerring';
//   - v < 0.19.0: the Balance and Container hashes are stored instead of the subscriber list.
// The read API afterwards must answer from the preset contents: epoch, current map and snapshots (Online),
// candidates WITH THEIR STATE, configuration; subscribers are the two stored contracts; a pending ballot
// refuses the upgrade and nothing changes.
// param 0: layout era (0: < 0.16, 1: [0.16, 0.17), 2: [0.17, 0.19)); param 1: notary flag (0 absent,
// 1 false, 2 true with no ballots, 3 true with a stale ballot, 4 true with a pending ballot, 5 true with a
// ballot whose last vote is a SYMBOLIC 15..25 blocks before the block of the update: pending iff <= 20,
// 6 true with TWO ballots, a pending one listed before a stale one, 7 the same in the other order: the list
// is not ordered by height (a re-voted ballot keeps its place), any pending ballot refuses the upgrade).
func VerifC16MigrateNetmap() {
	era, notary := vParam(0), vParam(1)
	v := vInt("deployedVersion")
	cur := vRepoVersion()
	switch era {
	case 0:
		vAssume(v >= 15004 && v < 16000)
	case 1:
		vAssume(v >= 16000 && v < 17000)
	default:
		vAssume(v >= 17000 && v < 19000)
	}
	vAssume(v < cur)
	vDeploy("probe1")
	vDeploy("probe2")
	vPresetDeploy("netmap")

	epoch := vInt("epoch")
	vAssume(epoch >= 1 && epoch <= 1000)
	current := vInt("currentSnapshot")
	vAssume(current == 0 || current == 1)
	stA, stB := vInt("stateA"), vInt("stateB")
	vAssume(stA >= 1 && stA <= 3 && stB >= 1 && stB <= 3)
	blobA, blobB, blobC := vBlob("nA", 3), vBlob("nB", 3), vBlob("nC", 3)
	val0 := vBytes("val0", 2)

	// notary = 8 (era 0): a history that was EXTENDED from 2 to 4 snapshots at ring index 0 and not refilled yet
	// (updateSnapshotCount exists since 0.15.1): the older map was moved to the tail slot 3, slots 1 and 2 are
	// missing, so the ring has a hole in the middle that the conversion must step over
	count, prevSlot, curSlot := 2, byte(1), byte(0)
	if notary == 8 {
		count, prevSlot = 4, 3
		vAssume(current == 0)
	}
	if notary == 9 { // a LONG history: 200 snapshots kept, the current one in slot 129, the previous in slot 128 —
		// slot numbers whose integer encoding takes two bytes on NeoVM; the keys are "snapshot_" + ONE byte
		count, curSlot, prevSlot = 200, 129, 128
		vAssume(current == 0)
	}
	vPreset("netmap", []byte(snapshotCountKey), count)
	vPreset("netmap", []byte(snapshotEpoch), epoch)
	vPreset("netmap", []byte(snapshotBlockKey), 5)
	if notary == 9 {
		vPreset("netmap", []byte(snapshotCurrentIDKey), 129)
	} else {
		vPreset("netmap", []byte(snapshotCurrentIDKey), current)
	}
	if era == 0 {
		vPreset("netmap", append([]byte(snapshotKeyPrefix), curSlot), vSerialize([]oldNode{{BLOB: blobA}, {BLOB: blobC}}))
		vPreset("netmap", append([]byte(snapshotKeyPrefix), prevSlot), vSerialize([]oldNode{{BLOB: blobB}}))
		vPreset("netmap", append(append([]byte{}, candidatePrefix...), vKey("nA")...), vSerialize(oldCandidate{f1: oldNode{BLOB: blobA}, f2: nodestate.Type(stA)}))
		vPreset("netmap", append(append([]byte{}, candidatePrefix...), vKey("nB")...), vSerialize(oldCandidate{f1: oldNode{BLOB: blobB}, f2: nodestate.Type(stB)}))
	} else {
		vPreset("netmap", append([]byte(snapshotKeyPrefix), curSlot), vSerialize([]Node{{BLOB: blobA, State: 1}, {BLOB: blobC, State: 1}}))
		vPreset("netmap", append([]byte(snapshotKeyPrefix), prevSlot), vSerialize([]Node{{BLOB: blobB, State: 1}}))
		vPreset("netmap", append(append([]byte{}, candidatePrefix...), vKey("nA")...), vSerialize(Node{BLOB: blobA, State: nodestate.Type(stA)}))
		vPreset("netmap", append(append([]byte{}, candidatePrefix...), vKey("nB")...), vSerialize(Node{BLOB: blobB, State: nodestate.Type(stB)}))
	}
	vPreset("netmap", append(append([]byte{}, configPrefix...), []byte("key0")...), val0)
	vPreset("netmap", []byte(balanceContractKey), vContractHash("probe1"))
	vPreset("netmap", []byte(containerContractKey), vContractHash("probe2"))
	pending := false
	if era <= 1 {
		switch notary {
		case 1, 8, 9:
			vPreset("netmap", []byte("notary"), false)
		case 2:
			vPreset("netmap", []byte("notary"), true)
			vPreset("netmap", []byte("innerring"), vSerialize([]common.IRNode{{PublicKey: vKey("ir0")}}))
			vPreset("netmap", []byte("ballots"), vSerialize([]common.Ballot{}))
		case 3: // last vote long ago
			vPreset("netmap", []byte("notary"), true)
			vPreset("netmap", []byte("ballots"), vSerialize([]common.Ballot{{ID: []byte("id"), Voters: nil, Height: -100000}}))
		case 4: // last vote "now" for every reachable height
			vPreset("netmap", []byte("notary"), true)
			vPreset("netmap", []byte("ballots"), vSerialize([]common.Ballot{{ID: []byte("id"), Voters: nil, Height: 1 << 30}}))
			pending = true
		case 6:
			vPreset("netmap", []byte("notary"), true)
			vPreset("netmap", []byte("ballots"), vSerialize([]common.Ballot{{ID: []byte("idA"), Voters: nil, Height: 1 << 30}, {ID: []byte("idB"), Voters: nil, Height: -100000}}))
			pending = true
		case 7:
			vPreset("netmap", []byte("notary"), true)
			vPreset("netmap", []byte("ballots"), vSerialize([]common.Ballot{{ID: []byte("idB"), Voters: nil, Height: -100000}, {ID: []byte("idA"), Voters: nil, Height: 1 << 30}}))
			pending = true
		case 5: // the ballots item is the last preset: it lands one block above vHeight(), the update two above,
			// where ledger.CurrentIndex() (the latest stored block) is vHeight()+1
			vPreset("netmap", []byte("notary"), true)
			age := vInt("blocksSinceTheLastVote")
			vAssume(age >= 15 && age <= 25)
			vPreset("netmap", []byte("ballots"), vSerialize([]common.Ballot{{ID: []byte("id"), Voters: nil, Height: vHeight() + 1 - age}}))
			pending = age <= 20
		}
	}

	done, _ := vUpdateFromPreset("netmap", v)
	vAssert(done == !pending, "C16/legacy-netmap-upgrade-completes-unless-a-vote-is-pending")
	if notary == 5 {
		age := vInt("blocksSinceTheLastVote")
		vCoverIf(!done && age == 20, "vote-exactly-20-blocks-old-refuses-the-upgrade")
		vCoverIf(done && age == 21, "vote-21-blocks-old-lets-the-upgrade-through")
	}
	if pending {
		vCoverIf(!done, "pending-ballot-refuses-the-upgrade")
		return
	}
	vRequire(done, "legacy-netmap-upgraded")
	if !done {
		return
	}
	_, ver := vRead("netmap", "version")
	vAssert(ver.(int) == cur, "C16/contract-reports-the-repository-version")
	_, ep := vRead("netmap", "epoch")
	_, leb := vRead("netmap", "lastEpochBlock")
	vAssert(ep.(int) == epoch && leb.(int) == 5, "C16/migration-preserves-the-epoch")
	_, r := vRead("netmap", "netmap")
	_, r1 := vRead("netmap", "snapshot", 1)
	nm, prev := r.([]Node), r1.([]Node)
	if current == 1 {
		nm, prev = prev, nm
	}
	vAssert(len(nm) == 2 && vEq(nm[0].BLOB, blobA) && int(nm[0].State) == 1 && vEq(nm[1].BLOB, blobC) && int(nm[1].State) == 1 &&
		len(prev) == 1 && vEq(prev[0].BLOB, blobB) && int(prev[0].State) == 1, "C16/migration-preserves-the-network-maps")
	_, rc := vRead("netmap", "netmapCandidates")
	cands := rc.([]Node)
	okA, okB := false, false
	for _, c := range cands {
		if vEq(c.BLOB, blobA) && int(c.State) == stA {
			okA = true
		}
		if vEq(c.BLOB, blobB) && int(c.State) == stB {
			okB = true
		}
	}
	vAssert(len(cands) == 2 && okA && okB, "C16/migration-preserves-candidates-and-their-states")
	_, c0 := vRead("netmap", "config", []byte("key0"))
	_, lc := vRead("netmap", "listConfig")
	vAssert(c0 != nil && vEq(c0.([]byte), val0) && len(lc.([]ConfigRecord)) == 1, "C16/migration-preserves-the-configuration")

	// the stored Balance and Container contracts are the subscribers now: the next tick reaches both
	vSign(vAlphabetAcct(), true)
	ticked, _ := vInvoke("netmap", "newEpoch", epoch+1)
	vAssert(ticked, "C16/migrated-netmap-keeps-ticking")
	if ticked {
		_, l1 := vRead("probe1", "last")
		_, l2 := vRead("probe2", "last")
		vAssert(l1.(int) == epoch+1 && l2.(int) == epoch+1, "C16/migration-turns-the-stored-contracts-into-subscribers")
	}
}
