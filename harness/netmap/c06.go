package netmap

func readInt(contract, method string) int {
	_, r := vRead(contract, method)
	return r.(int)
}

// candidate fingerprint: number of legacy candidates, their states summed, number of structured candidates
func candidates() (int, int, int) {
	_, r := vRead("netmap", "netmapCandidates")
	nodes := r.([]Node)
	st := 0
	for _, n := range nodes {
		st = st*4 + int(n.State)
	}
	_, r2 := vRead("netmap", "listCandidates")
	return len(nodes), st, len(r2.([]Node2))
}

// C06: candidates of both kinds (one of them in Maintenance, one Offline->removed), Balance subscribed by
// its deployment, two probe subscribers (p1 subscribed twice), then two ticks with symbolic epochs and a
// symbolic Alphabet signature; probe p2 refuses one symbolic epoch.
func VerifC06Tick() {
	vCommittee(vParam(2)) // committee size: the Alphabet is its 2n/3+1 account, the committee majority its n/2+1 one
	vDeploy("netmap", false, nil, nil, nil, []any{})
	if vParam(4) != 1 {
		// param 4 = 1: a stand-alone Netmap. Balance subscribes at its deployment and checks the Alphabet witness in
		// its own newEpoch, which would refuse the whole tick and hide a Netmap that has stopped checking it
		vDeploy("balance", false, nil, nil)
	}
	vDeploy("probe1")
	vDeploy("probe2")
	n1, n2 := vAcct("n1"), vAcct("n2")
	_ = n2
	vAssume(alpha("addPeerIR", vBlob("n1", 7)))
	vAssume(alpha("addPeerIR", vBlob("n2", 8)))
	vAssume(alpha("addPeerIR", vBlob("n3", 9)))
	vAssume(alpha("updateStateIR", 3, vKey("n2"))) // Maintenance: stays in the map
	vAssume(alpha("updateStateIR", 2, vKey("n3"))) // Offline: removed
	vSign(n1, true)
	vAssume(alpha("addNode", []any{[]any{"addr"}, nil, vKey("n1"), 1}))
	// param 1: the order in which the two probes subscribe (0: probe1 first, 1: probe2 first). Subscribers are
	// called in SUBSCRIPTION order; run both ways, one of the two contradicts the order of the contract hashes
	firstP, secondP := "probe1", "probe2"
	if vParam(1) == 1 {
		firstP, secondP = "probe2", "probe1"
	}
	vAssume(alpha("subscribeForNewEpoch", vContractHash(firstP)))
	vAssume(alpha("subscribeForNewEpoch", vContractHash(secondP)))
	// a second subscription of a subscribed contract is accepted and has no effect at all: no storage
	// change and no notification announcing a subscriber that is not new
	vSign(vAlphabetAcct(), true)
	again, _ := vInvoke("netmap", "subscribeForNewEpoch", vContractHash(firstP))
	vAssert(again && !vEffects(), "C06/subscribing-twice-has-no-additional-effect")
	vAssume(again)
	if c := vParam(0); c > 0 { // param 0: the number of kept snapshots (0: the default of 10). With 1 the list
		// published by a tick is also the oldest one kept: a clean-up that is one epoch too eager deletes it
		vAssume(alpha("updateSnapshotCount", c))
	}
	bad := vInt("epochRefusedByProbe2")
	vSign(vAcct("anyone"), true)
	ok, _ := vInvoke("probe2", "failAt", bad)
	vAssume(ok)

	cur := 0
	wantLegacy, wantStructured := 2, 1
	for i := 0; i < 2; i++ {
		if i == 1 && vParam(3) == 1 {
			// param 3 = 1: every candidate goes offline between the two ticks, so the second tick publishes EMPTY
			// maps (with a snapshot count of 1 into the very slot that holds the first tick's list)
			vAssume(alpha("updateStateIR", 2, vKey("n1")))
			vAssume(alpha("updateStateIR", 2, vKey("n2")))
			wantLegacy, wantStructured = 0, 0
		}
		e := vInt("e1")
		a, c := vBool("alphabetSigns1"), vBool("committeeMajoritySigns1")
		if i == 1 {
			e, a, c = vInt("e2"), vBool("alphabetSigns2"), vBool("committeeMajoritySigns2")
		}
		if vEq(vAlphabetAcct(), vCommitteeAcct()) { // committees of 1, 2 or 4: the two accounts coincide
			a = a || c
		}
		if vParam(5) == 1 { // param 5 = 1: epochs up to 2^32-1, everything the four-byte key of a node list can hold
			// (from 2^31 on the integer takes FIVE bytes on NeoVM: a sign byte)
			vAssume(e >= -2 && e <= 4294967295)
		} else {
			vAssume(e >= -2 && e <= 1000)
		}
		preEpoch, preBlock := readInt("netmap", "epoch"), readInt("netmap", "lastEpochBlock")
		preN, preSt, preM := candidates()
		_, pm := vRead("netmap", "netmap")
		preMap := len(pm.([]Node))
		preP1, preP2 := readInt("probe1", "last"), readInt("probe2", "last")
		vSign(vAlphabetAcct(), a)
		vSign(vCommitteeAcct(), c) // the committee majority alone is not the Alphabet
		done, _ := vInvoke("netmap", "newEpoch", e)
		h := vHeight()
		vAssert(done == (a && e > cur && e != bad), "C06/tick-succeeds-iff-alphabet-and-epoch-grows-and-no-subscriber-refuses")
		n, st, m := candidates()
		vAssert(n == preN && st == preSt && m == preM, "C06/candidates-unchanged-by-tick")
		if i == 0 {
			vRequire(done, "tick-succeeded")
		}
		if done {
			cur = e
			vAssert(readInt("netmap", "epoch") == e, "C06/epoch-is-the-argument")
			// ledger.CurrentIndex() is the latest stored block: one below the block that carries the tick
			vAssert(readInt("netmap", "lastEpochBlock") == h-1, "C06/tick-height-recorded")
			_, r := vRead("netmap", "netmap")
			nm := r.([]Node)
			// legacy map = the non-offline candidates n1 (Online) and n2 (Maintenance)
			vAssert(len(nm) == wantLegacy && (wantLegacy == 0 || int(nm[0].State)+int(nm[1].State) == 4), "C06/legacy-map-is-the-non-offline-candidates")
			_, r2 := vRead("netmap", "listNodes", e)
			ln := r2.([]Node2)
			vAssert(len(ln) == wantStructured && (wantStructured == 0 || vEq(ln[0].Key, vKey("n1"))), "C06/structured-map-is-the-structured-candidates")
			if i == 1 && wantLegacy == 0 {
				vCover("empty-maps-published")
			}
			if vParam(5) == 1 {
				vCoverIf(e >= 2147483648, "tick-to-an-epoch-with-the-top-bit-set")
			}
			vAssert(readInt("probe1", "last") == e && readInt("probe2", "last") == e, "C06/every-subscriber-called-with-the-epoch")
			names := vEventNames()
			vAssert(len(names) == 3 && names[0] == firstP+".Tick" && names[1] == secondP+".Tick" && names[2] == "netmap.NewEpoch",
				"C06/each-subscriber-once-in-subscription-order")
		} else {
			vCover("tick-refused")
			_, r := vRead("netmap", "netmap")
			vAssert(readInt("netmap", "epoch") == preEpoch && readInt("netmap", "lastEpochBlock") == preBlock &&
				len(r.([]Node)) == preMap && readInt("probe1", "last") == preP1 && readInt("probe2", "last") == preP2 &&
				vEventCount() == 0, "C06/failed-tick-changes-nothing")
		}
	}
}
