package netmap

func alpha(method string, args ...any) bool {
	vSign(vAlphabetAcct(), true)
	ok, _ := vInvoke("netmap", method, args...)
	return ok
}

// emptyAt: the epoch whose legacy map is published EMPTY (0: none).
var emptyAt int

// publish makes epoch e's network map recognisable: one legacy node whose info carries e at byte 40. At the
// epoch emptyAt the node is taken offline instead, so that tick publishes an empty map into its ring slot.
func publish(e int) bool {
	if e == emptyAt {
		if e > 1 && !alpha("updateStateIR", 2, vKey("node")) {
			return false
		}
		return alpha("newEpoch", e)
	}
	if !alpha("addPeerIR", vBlob("node", e)) {
		return false
	}
	return alpha("newEpoch", e)
}

func isEmptyEpoch(ep int) bool { return ep == 0 || ep == emptyAt }

// retained: is the map of epoch ep still stored after: count c0 since epoch 0, ticks up to e1, resize to c1
// at e1, ticks up to e2?
func retained(ep, c0, e1, c1, e2 int) bool {
	if ep < 0 || ep > e2 {
		return false
	}
	if ep <= e1 {
		return ep > e1-c0 && ep > e1-c1 && ep > e2-c1
	}
	return ep > e2-c1
}

// C08: count c0 (param) set at epoch 0, t0 ticks (param), resize to a symbolic count 0..param 3, t1 ticks (param),
// then symbolic queries through snapshot / snapshotByEpoch / listNodes.
func VerifC08Resize() {
	c0, t0, t1 := vParam(0), vParam(1), vParam(2)
	emptyAt = vParam(4)
	vDeploy("netmap", false, nil, nil, nil, []any{})
	// the structured node has a key of its own: taking the legacy node offline (emptyAt) must not remove it
	node := vAcct("node2")
	vSign(node, true)
	vAssume(alpha("addNode", []any{[]any{"addr"}, nil, vKey("node2"), 1}))
	if c0 != 10 {
		vAssume(alpha("updateSnapshotCount", c0))
	}
	for e := 1; e <= t0; e++ {
		vAssume(publish(e))
	}
	c1 := vInt("count")
	cmax := vParam(3)
	vAssume(c1 >= 0 && c1 <= cmax)
	if !alpha("updateSnapshotCount", c1) {
		vCover("resize-refused")
		// a refused resize changes nothing: the current map is still the one of epoch t0
		_, r := vRead("netmap", "netmap")
		nodes := r.([]Node)
		vAssert((isEmptyEpoch(t0) && len(nodes) == 0) || (!isEmptyEpoch(t0) && len(nodes) == 1 && int(nodes[0].BLOB[40]) == t0), "C08/refused-resize-changes-nothing")
		return
	}
	vCover("resize-accepted")
	e2 := t0 + t1
	for e := t0 + 1; e <= e2; e++ {
		ticked := publish(e)
		vAssert(ticked, "C08/accepted-count-can-tick")
		if !ticked {
			return
		}
	}
	if t1 == 0 { // the contract must still be able to tick
		ticked := publish(e2 + 1)
		vAssert(ticked, "C08/accepted-count-can-tick")
		if !ticked {
			return
		}
		e2++
	}

	// snapshot(d)
	d := vInt("d")
	vAssume(d >= -1 && d <= cmax+1)
	okq, res := vRead("netmap", "snapshot", d)
	ep := e2 - d
	got, n := -1, 0
	if okq {
		nodes := res.([]Node)
		n = len(nodes)
		if n == 1 {
			got = int(nodes[0].BLOB[40])
		}
	}
	if d < 0 || d >= c1 {
		vAssert(!okq || n == 0, "C08/snapshot-out-of-window-returns-nothing")
	} else if retained(ep, c0, t0, c1, e2) {
		vCover("retained-snapshot")
		if isEmptyEpoch(ep) {
			vAssert(okq && n == 0, "C08/snapshot-recent-map-exact")
		} else {
			vAssert(okq && n == 1 && got == ep, "C08/snapshot-recent-map-exact")
		}
	} else {
		vCover("dropped-snapshot")
		vAssert(!okq || n == 0, "C08/snapshot-older-map-not-visible")
	}

	// snapshotByEpoch(q)
	q := vInt("q")
	vAssume(q >= -1 && q <= e2+1)
	okq, res = vRead("netmap", "snapshotByEpoch", q)
	got, n = -1, 0
	if okq {
		nodes := res.([]Node)
		n = len(nodes)
		if n == 1 {
			got = int(nodes[0].BLOB[40])
		}
	}
	if e2-q < c1 && retained(q, c0, t0, c1, e2) {
		if isEmptyEpoch(q) {
			vAssert(okq && n == 0, "C08/snapshotByEpoch-exact")
		} else {
			vCover("retained-by-epoch")
			vAssert(okq && n == 1 && got == q, "C08/snapshotByEpoch-exact")
		}
	} else {
		vAssert(!okq || n == 0, "C08/snapshotByEpoch-older-or-future-not-visible")
	}

	// listNodes(q2): structured per-epoch lists
	q2 := vInt("q2")
	vAssume(q2 >= 0 && q2 <= e2+1)
	_, lr := vRead("netmap", "listNodes", q2)
	listed := len(lr.([]Node2)) > 0
	want := q2 >= 1 && retained(q2, c0, t0, c1, e2)
	if listed {
		vCover("some-epoch-listed")
	}
	vAssert(listed == want, "C08/listNodes-exactly-the-retained-epochs")
}
