package netmap

func alpha(method string, args ...any) bool {
	vSign(vAlphabetAcct(), true)
	ok, _ := vInvoke("netmap", method, args...)
	return ok
}

// emptyAt: the epoch whose legacy map is published EMPTY (0: none).
var emptyAt int

// publish makes epoch e's network map recognisable: one legacy node whose info carries e at byte 40. At the
// epoch emptyAt the node is taken offline instead, so that tick publishes an empty map into its ring slot.
func publish(e int) bool {
	if e == emptyAt {
		if e > 1 && !alpha("updateStateIR", 2, vKey("node")) {
			return false
		}
		return alpha("newEpoch", e)
	}
	if !alpha("addPeerIR", vBlob("node", e)) {
		return false
	}
	return alpha("newEpoch", e)
}

func isEmptyEpoch(ep int) bool { return ep == 0 || ep == emptyAt }

// retained: is the map of epoch ep still stored after: count c0 since epoch 0, ticks up to e1, resize to c1
// at e1, ticks up to e2?
func retained(ep, c0, e1, c1, e2 int) bool {
	if ep < 0 || ep > e2 {
		return false
	}
	if ep <= e1 {
		return ep > e1-c0 && ep > e1-c1 && ep > e2-c1
	}
	return ep > e2-c1
}

// C08: count c0 (param) set at epoch 0, t0 ticks (param), resize to a symbolic count 0..param 3, t1 ticks (param),
// then symbolic queries through snapshot / snapshotByEpoch / listNodes.
func VerifC08Resize() {
	c0, t0, t1 := vParam(0), vParam(1), vParam(2)
	emptyAt = vParam(4)
	vDeploy("netmap", false, nil, nil, nil, []any{})
	// the structured node has a key of its own: taking the legacy node offline (emptyAt) must not remove it
	node := vAcct("node2")
	vSign(node, true)
	vAssume(alpha("addNode", []any{[]any{"addr"}, nil, vKey("node2"), 1}))
	if c0 != 10 {
		vAssume(alpha("updateSnapshotCount", c0))
	}
	for e := 1; e <= t0; e++ {
		vAssume(publish(e))
	}
	c1 := vInt("count")
	cmax := vParam(3)
	vAssume(c1 >= 0 && c1 <= cmax)
	if !alpha("updateSnapshotCount", c1) {
		vCover("resize-refused")
		// a refused resize changes nothing: the current map is still the one of epoch t0
		_, r := vRead("netmap", "netmap")
		nodes := r.([]Node)
		vAssert((isEmptyEpoch(t0) && len(nodes) == 0) || (!isEmptyEpoch(t0) && len(nodes) == 1 && int(nodes[0].BLOB[40]) == t0), "C08/refused-resize-changes-nothing")
		return
	}
	vCover("resize-accepted")
	e2 := t0 + t1
	for e := t0 + 1; e <= e2; e++ {
		ticked := publish(e)
		vAssert(ticked, "C08/accepted-count-can-tick")
		if !ticked {
			return
		}
	}
	if t1 == 0 { // the contract must still be able to tick
		ticked := publish(e2 + 1)
		vAssert(ticked, "C08/accepted-count-can-tick")
		if !ticked {
			return
		}
		e2++
	}

	// snapshot(d)
	d := vInt("d")
	vAssume(d >= -1 && d <= cmax+1)
	okq, res := vRead("netmap", "snapshot", d)
	ep := e2 - d
	got, n := -1, 0
	if okq {
		nodes := res.([]Node)
		n = len(nodes)
		if n == 1 {
			got = int(nodes[0].BLOB[40])
		}
	}
	if d < 0 || d >= c1 {
		vAssert(!okq || n == 0, "C08/snapshot-out-of-window-returns-nothing")
	} else if retained(ep, c0, t0, c1, e2) {
		vCover("retained-snapshot")
		if isEmptyEpoch(ep) {
			vAssert(okq && n == 0, "C08/snapshot-recent-map-exact")
		} else {
			vAssert(okq && n == 1 && got == ep, "C08/snapshot-recent-map-exact")
		}
	} else {
		vCover("dropped-snapshot")
		vAssert(!okq || n == 0, "C08/snapshot-older-map-not-visible")
	}

	// snapshotByEpoch(q)
	q := vInt("q")
	vAssume(q >= -1 && q <= e2+1)
	okq, res = vRead("netmap", "snapshotByEpoch", q)
	got, n = -1, 0
	if okq {
		nodes := res.([]Node)
		n = len(nodes)
		if n == 1 {
			got = int(nodes[0].BLOB[40])
		}
	}
	if e2-q < c1 && retained(q, c0, t0, c1, e2) {
		if isEmptyEpoch(q) {
			vAssert(okq && n == 0, "C08/snapshotByEpoch-exact")
		} else {
			vCover("retained-by-epoch")
			vAssert(okq && n == 1 && got == q, "C08/snapshotByEpoch-exact")
		}
	} else {
		vAssert(!okq || n == 0, "C08/snapshotByEpoch-older-or-future-not-visible")
	}

	// listNodes(q2): structured per-epoch lists
	q2 := vInt("q2")
	vAssume(q2 >= 0 && q2 <= e2+1)
	_, lr := vRead("netmap", "listNodes", q2)
	listed := len(lr.([]Node2)) > 0
	want := q2 >= 1 && retained(q2, c0, t0, c1, e2)
	if listed {
		vCover("some-epoch-listed")
	}
	vAssert(listed == want, "C08/listNodes-exactly-the-retained-epochs")
}

// ---- C08 for ANY sequence of ticks and resizes (the quantifier names two resizes in one history) ----

// reference model: kept[ep] says whether the map of epoch ep is still in the history; seqN is the count.
// A tick at epoch e publishes e and drops what is older than the last seqN epochs; an accepted resize to c at
// epoch e drops what is older than the last c epochs. Nothing that was dropped ever comes back.
var (
	kept [24]bool
	seqN int
)

func modelTick(e int) {
	for i := 1; i < 24; i++ {
		if i == e {
			kept[i] = true
		} else if i <= e-seqN {
			kept[i] = false
		}
	}
}

func modelResize(e, c int) {
	seqN = c
	for i := 1; i < 24; i++ {
		if i <= e-c {
			kept[i] = false
		}
	}
}

func keptAt(ep int) bool {
	r := false
	for i := 1; i < 24; i++ {
		if ep == i && kept[i] {
			r = true
		}
	}
	return r
}

// VerifC08Sequence: params are steps, 0 ends the list: 1..50 = that many ticks; 100+c = a resize to the
// concrete count c; 200+m = a resize to a SYMBOLIC count 1..m. After every resize the current map is checked,
// at the end symbolic queries through snapshot / snapshotByEpoch / listNodes are compared with the model.
// A resize the contract refuses (count <= 0, unchanged count, or a fault) must change nothing.
func VerifC08Sequence() {
	emptyAt = 0
	vDeploy("netmap", false, nil, nil, nil, []any{})
	node := vAcct("node2")
	vSign(node, true)
	vAssume(alpha("addNode", []any{[]any{"addr"}, nil, vKey("node2"), 1}))
	for i := 0; i < 24; i++ {
		kept[i] = false
	}
	seqN = 10
	e, cmax := 0, 10
	tags := []string{"countA", "countB", "countC"}
	nsym := 0
	for s := 0; s < 8; s++ {
		st := vParam(s)
		if st == 0 {
			break
		}
		if st < 100 {
			for k := 0; k < st; k++ {
				e++
				ticked := publish(e)
				vAssert(ticked, "C08/accepted-count-can-tick")
				if !ticked {
					return
				}
				modelTick(e)
			}
			continue
		}
		c := st - 100
		if st >= 200 {
			c = vInt(tags[nsym])
			nsym++
			vAssume(c >= 1 && c <= st-200)
			if st-200 > cmax {
				cmax = st - 200
			}
		} else if c > cmax {
			cmax = c
		}
		accepted := alpha("updateSnapshotCount", c)
		if accepted {
			vCover("resize-accepted")
			modelResize(e, c)
		} else {
			vCover("resize-refused")
		}
		// whatever happened to the resize, the current map is the one of the current epoch
		_, r := vRead("netmap", "netmap")
		nodes := r.([]Node)
		vAssert((e == 0 && len(nodes) == 0) || (e > 0 && len(nodes) == 1 && int(nodes[0].BLOB[40]) == e), "C08/resize-keeps-the-current-map")
	}

	d := vInt("d")
	vAssume(d >= -1 && d <= cmax+1)
	okq, res := vRead("netmap", "snapshot", d)
	got, n := -1, 0
	if okq {
		nodes := res.([]Node)
		n = len(nodes)
		if n == 1 {
			got = int(nodes[0].BLOB[40])
		}
	}
	ep := e - d
	if d >= 0 && d < seqN && keptAt(ep) {
		vCover("retained-snapshot")
		vAssert(okq && n == 1 && got == ep, "C08/snapshot-recent-map-exact")
	} else {
		vAssert(!okq || n == 0, "C08/snapshot-older-map-not-visible")
	}
	q := vInt("q")
	vAssume(q >= -1 && q <= e+1)
	okq, res = vRead("netmap", "snapshotByEpoch", q)
	got, n = -1, 0
	if okq {
		nodes := res.([]Node)
		n = len(nodes)
		if n == 1 {
			got = int(nodes[0].BLOB[40])
		}
	}
	if q >= 1 && e-q < seqN && keptAt(q) {
		vCover("retained-by-epoch")
		vAssert(okq && n == 1 && got == q, "C08/snapshotByEpoch-exact")
	} else {
		vAssert(!okq || n == 0, "C08/snapshotByEpoch-older-or-future-not-visible")
	}
	q2 := vInt("q2")
	vAssume(q2 >= 0 && q2 <= e+1)
	_, lr := vRead("netmap", "listNodes", q2)
	listed := len(lr.([]Node2)) > 0
	vAssert(listed == (q2 >= 1 && keptAt(q2)), "C08/listNodes-exactly-the-retained-epochs")
}
