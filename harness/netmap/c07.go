package netmap

// reference model of candidate n0 (the query key): presence and state in the legacy and structured lists
var (
	mLeg, mStr     bool
	mLegSt, mStrSt int
)

// observe n0 in both candidate lists
func observe() (leg bool, legSt int, str bool, strSt int, total int) {
	k0 := vKey("n0")
	_, r := vRead("netmap", "netmapCandidates")
	nodes := r.([]Node)
	for _, n := range nodes {
		if vEq(n.BLOB[2:35], k0) {
			leg, legSt = true, int(n.State)
		}
	}
	_, r2 := vRead("netmap", "listCandidates")
	nodes2 := r2.([]Node2)
	for _, n := range nodes2 {
		if vEq(n.Key, k0) {
			str, strSt = true, int(n.State)
		}
	}
	return leg, legSt, str, strSt, len(nodes) + len(nodes2)
}

// step performs one symbolic operation on a symbolic target (n0 or n1) with symbolic signers and checks
// it against the model.
func step(tag string) {
	op := vInt("op" + tag)
	vAssume(op >= 0 && op <= 5)
	onN0 := vBool("targetIsN0" + tag)
	state := vInt("state" + tag)
	a, byNode := vBool("alphabetSigns"+tag), vBool("nodeSigns"+tag)
	key, blob, acct := vKey("n1"), vBlob("n1", 5), vAcct("n1")
	if onN0 {
		key, blob, acct = vKey("n0"), vBlob("n0", 5), vAcct("n0")
	}
	preLeg, preLegSt, preStr, preStrSt, preTotal := observe()
	vAssert(preLeg == mLeg && preStr == mStr && (!mLeg || preLegSt == mLegSt) && (!mStr || preStrSt == mStrSt), "C07/model-in-sync-before-step")

	vSign(vAlphabetAcct(), a)
	vSign(acct, byNode)
	var done bool
	expect := false
	validState := state == 1 || state == 2 || state == 3
	switch op {
	case 0:
		done, _ = vInvoke("netmap", "addPeer", blob)
		expect = a && byNode
	case 1:
		done, _ = vInvoke("netmap", "addPeerIR", blob)
		expect = a
	case 2:
		done, _ = vInvoke("netmap", "addNode", []any{[]any{"addr"}, nil, key, state})
		expect = a && byNode && state == 1
	case 3:
		done, _ = vInvoke("netmap", "updateState", state, key)
		expect = a && byNode && validState
	case 4:
		done, _ = vInvoke("netmap", "updateStateIR", state, key)
		expect = a && validState
	case 5:
		done, _ = vInvoke("netmap", "deleteNode", key)
		expect = a
		state = 2
	}
	if op >= 3 && (state == 1 || state == 3) && onN0 && !mLeg && !mStr {
		expect = false // Online/Maintenance on an unknown candidate fails
	}
	if op >= 3 && (state == 1 || state == 3) && !onN0 {
		// n1 is not tracked by the model: its presence decides; only "success => documented witnesses" is asserted
		vAssert(!done || expect, "C07/update-needs-its-witnesses")
	} else {
		vAssert(done == expect, "C07/operation-succeeds-exactly-when-documented")
	}
	if done {
		vCover("operation-succeeded")
		if onN0 {
			switch {
			case op <= 1:
				mLeg, mLegSt = true, 1
			case op == 2:
				mStr, mStrSt = true, 1
			case state == 2:
				mLeg, mStr = false, false
			default:
				if mLeg {
					mLegSt = state
				}
				if mStr {
					mStrSt = state
				}
			}
		}
		n := len(vEvents("netmap", "AddPeerSuccess")) + len(vEvents("netmap", "AddNode")) + len(vEvents("netmap", "UpdateStateSuccess"))
		vAssert(n == 1, "C07/exactly-one-notification-per-successful-operation")
	}
	leg, legSt, str, strSt, total := observe()
	vAssert(leg == mLeg && str == mStr && (!mLeg || legSt == mLegSt) && (!mStr || strSt == mStrSt), "C07/candidate-lists-follow-the-state-machine")
	if !done {
		vAssert(leg == preLeg && str == preStr && legSt == preLegSt && strSt == preStrSt && total == preTotal && vEventCount() == 0, "C07/failed-operation-has-no-effect")
	}
	if done && op >= 3 && state == 2 && onN0 && !preLeg && !preStr {
		vCover("offline-on-unknown-candidate")
		vAssert(total == preTotal, "C07/removing-an-unknown-candidate-changes-nothing")
	}
}

// C07: k symbolic operations (k = param 0) over the pool {n0, n1}.
func VerifC07Candidates() {
	k := vParam(0)
	vCommittee(vParam(2)) // committee size: every operation needs the Alphabet's 2n/3+1 account
	vDeploy("netmap", false, nil, nil, nil, []any{})
	mLeg, mStr, mLegSt, mStrSt = false, false, 0, 0
	switch vParam(1) { // fixture: n0 held by both lists in different states
	case 1: // legacy Maintenance, structured Online
		vAssume(alpha("addPeerIR", vBlob("n0", 5)))
		vAssume(alpha("updateStateIR", 3, vKey("n0")))
		vSign(vAcct("n0"), true)
		vAssume(alpha("addNode", []any{[]any{"addr"}, nil, vKey("n0"), 1}))
		mLeg, mStr, mLegSt, mStrSt = true, true, 3, 1
	case 2: // legacy Online, structured Maintenance
		vSign(vAcct("n0"), true)
		vAssume(alpha("addNode", []any{[]any{"addr"}, nil, vKey("n0"), 1}))
		vAssume(alpha("updateStateIR", 3, vKey("n0")))
		vAssume(alpha("addPeerIR", vBlob("n0", 5)))
		mLeg, mStr, mLegSt, mStrSt = true, true, 1, 3
	}
	step("A")
	if k >= 2 {
		step("B")
	}
	if k >= 3 {
		step("C")
	}
}
