package netmap

// C20 netmap configuration: two setConfig with symbolic keys (lengths = params 0,1; free to coincide or to be
// prefixes of one another) and 2-byte values, then config(kq) for a symbolic key of length param 2 and listConfig.
func VerifC20NetmapConfig() {
	vDeploy("netmap", false, nil, nil, nil, []any{})
	k1, k2, kq := vBytes("k1", vParam(0)), vBytes("k2", vParam(1)), vBytes("kq", vParam(2))
	v1, v2 := vBytes("v1", 2), vBytes("v2", 2)
	vSign(vAcct("stranger"), true)
	ok, _ := vInvoke("netmap", "setConfig", []byte{1}, k1, v1)
	vAssert(!ok, "C20/netmap-setConfig-needs-alphabet")
	vAssume(alpha("setConfig", []byte{1}, k1, v1))
	vAssume(alpha("setConfig", []byte{2}, k2, v2))
	_, r := vRead("netmap", "config", kq)
	switch {
	case vEq(kq, k2):
		vCover("query-hits-the-second-key")
		vAssert(r != nil && vEq(r.([]byte), v2), "C20/netmap-config-returns-the-last-value-set")
	case vEq(kq, k1):
		vCover("query-hits-the-first-key")
		vAssert(r != nil && vEq(r.([]byte), v1), "C20/netmap-config-returns-the-last-value-set")
	default:
		vCover("query-misses")
		vAssert(r == nil, "C20/netmap-config-returns-nothing-for-an-unset-key")
	}
	_, l := vRead("netmap", "listConfig")
	recs := l.([]ConfigRecord)
	want := 2
	if vEq(k1, k2) {
		want = 1
	}
	vAssert(len(recs) == want, "C20/netmap-listConfig-lists-every-key-once")
	for _, rec := range recs {
		vAssert((vEq(rec.Key, k2) && vEq(rec.Value, v2)) || (vEq(rec.Key, k1) && !vEq(k1, k2) && vEq(rec.Value, v1)), "C20/netmap-listConfig-is-exact")
	}
}
