package balance

import "github.com/nspcc-dev/neofs-contract/common"

// C16 migration of a legacy Balance storage: accounts live under their bare 20-byte script hash (releases
// before 0.20.0), releases before 0.17.0 may also carry a 'notary' flag, ballots and two contract hashes.
// The storage is preset raw and the working tree's _deploy(data||v, true) runs on it; afterwards
// balanceOf / totalSupply answer from the preset accounts, the lock account is still a lock (released to
// its parent at its epoch) and transfers work on the migrated accounts.
// param 0: era (0: v in [0.15.4, 0.17.0), 1: [0.17.0, 0.20.0)); param 1: notary flag (0 absent, 1 false,
// 2 true without ballots, 3 true with a stale ballot, 4 true with a pending ballot).
func VerifC16MigrateBalance() {
	era, notary := vParam(0), vParam(1)
	v := vInt("deployedVersion")
	cur := vRepoVersion()
	if era == 0 {
		vAssume(v >= 15004 && v < 17000)
	} else {
		vAssume(v >= 17000 && v < 20000)
	}
	vAssume(v < cur)
	vDeploy("netmap", false, nil, nil, nil, []any{})
	vPresetDeploy("balance")

	user, other, lock := vAcct("user"), vAcct("other"), vAcct("lockacc")
	x, y, z := vInt("x"), vInt("y"), vInt("z")
	until := vInt("until")
	vAssume(x >= 1 && x <= 1000000 && y >= 1 && y <= 1000000 && z >= 1 && z <= 1000000)
	vAssume(until >= 2 && until <= 100)
	vPreset("balance", user, vSerialize(Account{Balance: x}))
	vPreset("balance", other, vSerialize(Account{Balance: z}))
	vPreset("balance", lock, vSerialize(Account{Balance: y, Until: until, Parent: user}))
	vPreset("balance", []byte(circulation), x+y+z)
	pending := false
	if era == 0 {
		vPreset("balance", []byte("netmapScriptHash"), vContractHash("netmap"))
		vPreset("balance", []byte("containerScriptHash"), vAcct("container-placeholder"))
		switch notary {
		case 1:
			vPreset("balance", []byte("notary"), false)
		case 2:
			vPreset("balance", []byte("notary"), true)
			vPreset("balance", []byte("ballots"), vSerialize([]common.Ballot{}))
		case 3:
			vPreset("balance", []byte("notary"), true)
			vPreset("balance", []byte("ballots"), vSerialize([]common.Ballot{{ID: []byte("id"), Voters: nil, Height: -100000}}))
		case 4:
			vPreset("balance", []byte("notary"), true)
			vPreset("balance", []byte("ballots"), vSerialize([]common.Ballot{{ID: []byte("id"), Voters: nil, Height: 1 << 30}}))
			pending = true
		}
	}

	done, _ := vUpdateFromPreset("balance", v)
	vAssert(done == !pending, "C16/legacy-balance-upgrade-completes-unless-a-vote-is-pending")
	if pending {
		vCoverIf(!done, "pending-ballot-refuses-the-upgrade")
		return
	}
	vRequire(done, "legacy-balance-upgraded")
	if !done {
		return
	}
	_, ver := vRead("balance", "version")
	vAssert(ver.(int) == cur, "C16/contract-reports-the-repository-version")
	vAssert(balOf(user) == x && balOf(other) == z && balOf(lock) == y && supply() == x+y+z, "C16/migration-preserves-balances-and-supply")
	// the same state under C01 (this harness is also registered there): after an upgrade from ANY supported
	// version the supply is the sum of the balances, and it stays so after a transfer and the ticks below
	vAssert(balOf(user)+balOf(other)+balOf(lock) == supply() && supply() == x+y+z, "C01/sum-equals-supply")
	vAssert(balOf(vAcct("nobody")) == 0, "C16/migration-invents-no-balance")

	// the migrated accounts are usable: a transfer moves funds between them
	vSign(user, true)
	ok, r := vInvoke("balance", "transfer", user, other, 1, nil)
	vAssert(ok && r.(bool) && balOf(user) == x-1 && balOf(other) == z+1, "C16/migrated-accounts-are-usable")

	// the lock is still a lock: nothing before its epoch, everything back to the parent at it
	vSign(vAlphabetAcct(), true)
	ok, _ = vInvoke("balance", "newEpoch", until-1)
	vAssert(ok && balOf(lock) == y && balOf(user) == x-1, "C16/migration-preserves-lock-accounts")
	vSign(vAlphabetAcct(), true)
	ok, _ = vInvoke("balance", "newEpoch", until)
	vAssert(ok && balOf(lock) == 0 && balOf(user) == x-1+y && supply() == x+y+z, "C16/migration-preserves-lock-accounts")
	vAssert(balOf(user)+balOf(other)+balOf(lock) == supply(), "C01/sum-equals-supply")
}
