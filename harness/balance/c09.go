package balance

func lockFunds(id byte, from, to []byte, amount, until int) bool {
	vSign(vAlphabetAcct(), true)
	ok, _ := vInvoke("balance", "lock", []byte{id}, from, to, amount, until)
	return ok
}

// tick delivers an epoch tick to Balance: directly (Alphabet-signed balance.newEpoch) or through the
// Netmap fan-out (netmap.newEpoch -> subscribers).
func tick(viaNetmap bool, e int) bool {
	vSign(vAlphabetAcct(), true)
	if viaNetmap {
		ok, _ := vInvoke("netmap", "newEpoch", e)
		return ok
	}
	ok, _ := vInvoke("balance", "newEpoch", e)
	return ok
}

// C09: two locks of one owner with symbolic amounts and expiry epochs, an optional partial/full burn of
// the first one, then two ticks with symbolic epochs.
func VerifC09Locks() {
	viaNetmap := vParam(0) == 1
	deployBalanceWorld()
	p, l1, l2 := vAcct("p"), vAcct("L1"), vAcct("L2")
	x, y1, u1, y2, u2 := vInt("x"), vInt("y1"), vInt("u1"), vInt("y2"), vInt("u2")
	z, e1, e2 := vInt("z"), vInt("e1"), vInt("e2")
	vAssume(x >= 0 && y1 >= 0 && y2 >= 0 && y1+y2 <= x)
	vAssume(u1 >= -3 && u1 <= 300 && u2 >= -3 && u2 <= 300)
	vAssume(e1 >= 1 && e1 <= 300 && e2 > e1 && e2 <= 300)
	vAssume(mint(p, x))
	vAssume(lockFunds(1, p, l1, y1, u1))
	vAssume(lockFunds(2, p, l2, y2, u2))
	vAssert(balOf(l1) == y1 && balOf(l2) == y2 && balOf(p) == x-y1-y2, "C09/lock-moves-exactly-the-amount")
	rem1 := y1
	if vBool("burnFirst") {
		vAssume(z >= 0 && z <= y1)
		vSign(vAlphabetAcct(), true)
		ok, _ := vInvoke("balance", "burn", l1, z, []byte{9})
		vAssume(ok)
		rem1 = y1 - z
		if z > 0 && z < y1 {
			vCover("partial-burn")
		}
	}
	sup := supply()
	alive1 := !(vBool("burnFirst") && z == y1) // a lock burnt completely is gone

	vAssume(tick(viaNetmap, e1))
	r1, r2 := u1 <= e1, u2 <= e1
	rel := 0
	if alive1 && r1 {
		rel++
	}
	if r2 {
		rel++
	}
	vAssert(len(vEvents("balance", "Transfer")) == rel, "C09/one-unlock-transfer-per-lock-released-by-the-tick")
	want := x - y1 - y2
	if r1 {
		want += rem1
	}
	if r2 {
		want += y2
	}
	vRequire(r1 && r2, "both-released-by-one-tick")
	if !r1 && !r2 {
		vCover("tick-before-any-expiry")
		vAssert(vEventCount() == 0 || viaNetmap, "C09/early-tick-changes-nothing")
	}
	b1, b2, bp := balOf(l1), balOf(l2), balOf(p)
	if r1 {
		vAssert(b1 == 0, "C09/released-at-first-tick-with-epoch>=until")
	} else {
		vAssert(b1 == rem1, "C09/not-released-before-until")
	}
	if r2 {
		vAssert(b2 == 0, "C09/released-at-first-tick-with-epoch>=until")
	} else {
		vAssert(b2 == y2, "C09/not-released-before-until")
	}
	vAssert(bp == want, "C09/owner-gets-exactly-the-remaining-balance")
	vAssert(supply() == sup, "C09/ticks-do-not-change-supply")

	vAssume(tick(viaNetmap, e2))
	s1, s2 := u1 <= e2, u2 <= e2
	rel = 0
	if alive1 && s1 && !r1 {
		rel++
	}
	if s2 && !r2 {
		rel++
	}
	vAssert(len(vEvents("balance", "Transfer")) == rel, "C09/a-released-lock-account-disappears")
	want2 := x - y1 - y2
	if s1 {
		want2 += rem1
	}
	if s2 {
		want2 += y2
	}
	if r1 && s1 {
		vCover("second-tick-after-release")
	}
	c1, c2, cp := balOf(l1), balOf(l2), balOf(p)
	vAssert((s1 && c1 == 0) || (!s1 && c1 == rem1), "C09/second-tick-first-lock")
	vAssert((s2 && c2 == 0) || (!s2 && c2 == y2), "C09/second-tick-second-lock")
	vAssert(cp == want2, "C09/unlock-never-happens-twice")
	vAssert(supply() == sup, "C09/ticks-do-not-change-supply")
}

// C09 with TWO owners: p locks y1 of its x1 until u1, q locks y2 of its x2 until u2 (all symbolic), one tick
// with a symbolic epoch. Each owner gets back exactly its own lock, whatever the other one's is. Cover points
// force witnesses in which BOTH owners have locked their ENTIRE balance until the SAME epoch, so that neither
// has an account record when the tick returns the funds: the replays of those witnesses run on the real VM,
// where a struct is a reference (an "empty account" value shared between two credits of one invocation is
// invisible to the symbolic side, which gives structs Go's value semantics — DESIGN.md 3).
func VerifC09TwoOwners() {
	viaNetmap := vParam(0) == 1
	deployBalanceWorld()
	p, q, l1, l2 := vAcct("p"), vAcct("q"), vAcct("L1"), vAcct("L2")
	x1, x2, y1, y2, u1, u2, e := vInt("x1"), vInt("x2"), vInt("y1"), vInt("y2"), vInt("u1"), vInt("u2"), vInt("e")
	vAssume(x1 >= 1 && x1 <= 1000000 && x2 >= 1 && x2 <= 1000000 && y1 >= 1 && y1 <= x1 && y2 >= 1 && y2 <= x2)
	vAssume(u1 >= 1 && u1 <= 300 && u2 >= 1 && u2 <= 300 && e >= 1 && e <= 300)
	vAssume(mint(p, x1))
	vAssume(mint(q, x2))
	vAssume(lockFunds(1, p, l1, y1, u1))
	vAssume(lockFunds(2, q, l2, y2, u2))
	sup := supply()
	vAssume(tick(viaNetmap, e))
	wantP, wantQ := x1-y1, x2-y2
	if u1 <= e {
		wantP = x1
	}
	if u2 <= e {
		wantQ = x2
	}
	vAssert(balOf(p) == wantP && balOf(q) == wantQ, "C09/each-owner-gets-back-exactly-its-own-lock")
	vAssert(balOf(l1)+balOf(l2)+balOf(p)+balOf(q) == sup && supply() == sup, "C09/ticks-do-not-change-supply")
	// the same observation under C01 (this harness is also registered there): supply = sum of balances
	vAssert(balOf(l1)+balOf(l2)+balOf(p)+balOf(q) == supply(), "C01/sum-equals-supply")
	vCoverIf(y1 == x1 && y2 == x2 && u1 == u2 && u1 <= e && y1 != y2, "both-owners-locked-everything-until-the-same-epoch")
	vCoverIf(y1 == x1 && y2 < x2 && u1 <= e && u2 <= e, "one-owner-locked-everything")
	vCoverIf(u1 <= e && u2 > e, "only-the-first-lock-expired")
}

// C09 with a credit to a LIVE lock account: p locks y1 (0 included) until u1; before the tick the lock account
// is credited with t (param 1: 0 a public transfer signed by q, 1 the Alphabet's transferX from q, 2 a mint).
// The lock stays a lock: the first tick with epoch >= until returns exactly the remaining balance (lock and
// credit) to p and the lock account disappears; earlier ticks change nothing; a later tick returns nothing more.
func VerifC09TopUp() {
	viaNetmap := vParam(0) == 1
	kind := vParam(1)
	deployBalanceWorld()
	p, q, l1 := vAcct("p"), vAcct("q"), vAcct("L1")
	x1, x2, y1, u1, t, e, e2 := vInt("x1"), vInt("x2"), vInt("y1"), vInt("u1"), vInt("t"), vInt("e"), vInt("e2")
	vAssume(x1 >= 1 && x1 <= 1000000 && x2 >= 1 && x2 <= 1000000 && y1 >= 0 && y1 <= x1 && t >= 0 && t <= x2)
	vAssume(u1 >= 1 && u1 <= 300 && e >= 1 && e <= 300 && e2 > e && e2 <= 301)
	vAssume(mint(p, x1))
	vAssume(mint(q, x2))
	vAssume(lockFunds(1, p, l1, y1, u1))
	minted := 0
	switch kind {
	case 0:
		vSign(q, true)
		ok, r := vInvoke("balance", "transfer", q, l1, t, nil)
		vAssume(ok && r.(bool))
	case 1:
		vSign(vAlphabetAcct(), true)
		ok, _ := vInvoke("balance", "transferX", q, l1, t, []byte{7})
		vAssume(ok)
	default:
		vAssume(mint(l1, t))
		minted = t
	}
	spent := t - minted // what q paid
	vAssert(balOf(l1) == y1+t && balOf(q) == x2-spent && balOf(p) == x1-y1, "C09/a-credit-to-a-lock-account-adds-to-it")
	sup := supply()
	vAssume(tick(viaNetmap, e))
	if u1 <= e {
		vCoverIf(t > 0 && y1 > 0, "credited-lock-released")
		vAssert(balOf(l1) == 0 && balOf(p) == x1+t, "C09/released-at-first-tick-with-epoch>=until")
	} else {
		vAssert(balOf(l1) == y1+t && balOf(p) == x1-y1, "C09/not-released-before-until")
	}
	vAssert(balOf(q) == x2-spent && supply() == sup, "C09/ticks-do-not-change-supply")
	vAssume(tick(viaNetmap, e2))
	if u1 <= e2 {
		vCoverIf(u1 > e && t > 0, "credited-lock-released-by-the-second-tick")
		vAssert(balOf(l1) == 0 && balOf(p) == x1+t, "C09/unlock-never-happens-twice")
	} else {
		vAssert(balOf(l1) == y1+t && balOf(p) == x1-y1, "C09/not-released-before-until")
	}
	vAssert(balOf(q) == x2-spent && supply() == sup, "C09/ticks-do-not-change-supply")
}

// Chained locks (registered under C01 and C09): u locks y1 on A until u1, then the Alphabet locks y2 <= y1 of A's
// funds on B until u2 (a lock whose source is itself a lock account), one tick with a symbolic epoch. Param 1
// swaps the two lock addresses, so that the tick meets the inner lock before the outer one and after it. Whatever
// the order: supply = sum of balances, the tick does not change the supply, nobody goes negative, the
// notifications of the tick reproduce every balance, and an unexpired lock keeps its funds.
func VerifC09Chained() {
	viaNetmap := vParam(0) == 1
	deployBalanceWorld()
	u, a, b := vAcct("p"), vAcct("L1"), vAcct("L2")
	if vParam(1) == 1 {
		a, b = b, a
	}
	x, y1, y2, u1, u2, e := vInt("x"), vInt("y1"), vInt("y2"), vInt("u1"), vInt("u2"), vInt("e")
	vAssume(x >= 1 && x <= 1000000 && y1 >= 1 && y1 <= x && y2 >= 1 && y2 <= y1)
	vAssume(u1 >= 1 && u1 <= 300 && u2 >= 1 && u2 <= 300 && e >= 1 && e <= 300)
	vAssume(mint(u, x))
	vAssume(lockFunds(1, u, a, y1, u1))
	vAssume(lockFunds(2, a, b, y2, u2))
	sup := supply()
	vAssert(balOf(u)+balOf(a)+balOf(b) == sup && sup == x, "C01/setup-state-consistent")
	pu, pa, pb := balOf(u), balOf(a), balOf(b)
	vAssume(tick(viaNetmap, e))
	cu, ca, cb := balOf(u), balOf(a), balOf(b)
	vAssert(cu+ca+cb == supply(), "C01/sum-equals-supply")
	vAssert(supply() == sup, "C09/ticks-do-not-change-supply")
	vAssert(cu >= 0 && ca >= 0 && cb >= 0, "C01/non-negative")
	vAssert(applyEvents(u, pu) == cu && applyEvents(a, pa) == ca && applyEvents(b, pb) == cb, "C01/notifications-reproduce-balances")
	if u2 > e {
		vAssert(cb == y2, "C09/not-released-before-until")
	} else {
		vAssert(cb == 0, "C09/released-at-first-tick-with-epoch>=until")
	}
	if u1 > e && u2 > e {
		vAssert(cu == pu && ca == pa, "C09/not-released-before-until")
	}
	vCoverIf(u1 <= e && u2 <= e, "both-chained-locks-expired-at-one-tick")
	vCoverIf(u1 > e && u2 <= e, "inner-lock-expired-first")
}
