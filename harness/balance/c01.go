package balance

// deployBalanceWorld: Netmap and Balance deployed through their real _deploy (Balance subscribes itself).
func deployBalanceWorld() {
	vDeploy("netmap", false, nil, nil, nil, []any{})
	vDeploy("balance", false, nil, nil)
}

func mint(to []byte, x int) bool {
	vSign(vAlphabetAcct(), true)
	ok, _ := vInvoke("balance", "mint", to, x, []byte{})
	return ok
}

func balOf(a []byte) int {
	_, r := vRead("balance", "balanceOf", a)
	return r.(int)
}

func supply() int {
	_, r := vRead("balance", "totalSupply")
	return r.(int)
}

// C01/C02: two funded accounts, then one public transfer with symbolic direction, amount and signer.
func VerifC01Transfer() {
	deployBalanceWorld()
	a0 := vAcct("a0")
	a1 := vAcct("a1")
	thief := vAcct("thief")
	x0 := vInt("x0")
	x1 := vInt("x1")
	vAssume(x0 >= 0)
	vAssume(x1 >= 0)
	vAssume(mint(a0, x0))
	vAssume(mint(a1, x1))

	var from, to, signer []byte
	fromIsA0 := vBool("fromIsA0")
	if fromIsA0 {
		from = a0
	} else {
		from = a1
	}
	if vBool("toIsA0") {
		to = a0
	} else {
		to = a1
	}
	ownerSigns := vBool("ownerSigns")
	if ownerSigns {
		signer = from
	} else {
		signer = thief
	}
	amt := vInt("amt")

	pre0 := balOf(a0)
	pre1 := balOf(a1)
	vSign(signer, true)
	ok, res := vInvoke("balance", "transfer", from, to, amt, nil)
	post0 := balOf(a0)
	post1 := balOf(a1)
	sup := supply()

	if ok && res.(bool) {
		vCover("transfer-succeeded")
	} else {
		vAssert(post0 == pre0 && post1 == pre1, "C01/refusal-changes-nothing")
	}
	vAssert(post0 >= 0 && post1 >= 0, "C01/non-negative")
	vAssert(post0+post1 == sup, "C01/sum-equals-supply")
	vAssert(sup == x0+x1, "C01/supply-only-by-mint-burn")
	vAssert(post0 >= pre0 || (fromIsA0 && ownerSigns), "C02/debit-a0-authorised")
	vAssert(post1 >= pre1 || (!fromIsA0 && ownerSigns), "C02/debit-a1-authorised")
}
