package balance

// deployBalanceWorld: Netmap and Balance deployed through their real _deploy (Balance subscribes itself).
func deployBalanceWorld() {
	vDeploy("netmap", false, nil, nil, nil, []any{})
	vDeploy("balance", false, nil, nil)
}

func mint(to []byte, x int) bool {
	vSign(vAlphabetAcct(), true)
	ok, _ := vInvoke("balance", "mint", to, x, []byte{})
	return ok
}

func balOf(a []byte) int {
	_, r := vRead("balance", "balanceOf", a)
	return r.(int)
}

func supply() int {
	_, r := vRead("balance", "totalSupply")
	return r.(int)
}

// applyEvents replays the Transfer notifications of the last transaction on a pre-balance.
func applyEvents(acct []byte, pre int) int {
	b := pre
	for _, ev := range vEvents("balance", "Transfer") {
		amount := ev[2].(int)
		if vEq(ev[0].([]byte), acct) {
			b -= amount
		}
		if vEq(ev[1].([]byte), acct) {
			b += amount
		}
	}
	return b
}

// eventsPaired: one TransferX per Transfer, same from/to/amount, same order.
func eventsPaired() bool {
	t, x := vEvents("balance", "Transfer"), vEvents("balance", "TransferX")
	if len(t) != len(x) {
		return false
	}
	ok := true
	for i := range t {
		if !vEq(t[i][0].([]byte), x[i][0].([]byte)) || !vEq(t[i][1].([]byte), x[i][1].([]byte)) || t[i][2].(int) != x[i][2].(int) {
			ok = false
		}
	}
	return ok
}

// C01/C02: from a state built through the API (two funded accounts, one live lock), ONE fully symbolic
// operation: method = vParam(0), all arguments and the signer set symbolic.
//
//	0 transfer (public; address lengths vParam(1), vParam(2))  1 transferX  2 mint  3 burn  4 lock  5 newEpoch
func VerifC01Op() {
	op, flen, tlen := vParam(0), vParam(1), vParam(2)
	vCommittee(vParam(3)) // committee size: the Alphabet threshold formula is exercised at sizes divisible by 3 too
	deployBalanceWorld()
	a0, a1, lk, thief := vAcct("a0"), vAcct("a1"), vAcct("lk"), vAcct("thief")
	x0, x1, y, until := vInt("x0"), vInt("x1"), vInt("y"), vInt("until")
	vAssume(x0 >= 0 && x1 >= 0 && y >= 0 && y <= x0)
	vAssume(until >= 1 && until <= 1000)
	vAssume(mint(a0, x0))
	vAssume(mint(a1, x1))
	vSign(vAlphabetAcct(), true)
	ok, _ := vInvoke("balance", "lock", []byte{1}, a0, lk, y, until)
	vAssume(ok)

	from, to := vBytes("from", flen), vBytes("to", tlen)
	amt := vInt("amt")
	alpha, s0, s1 := vBool("alphabetSigns"), vBool("a0Signs"), vBool("a1Signs")
	fresh := !vEq(to, a0) && !vEq(to, a1) && !vEq(to, lk)
	if op == 4 {
		vAssume(fresh) // lock targets are fresh addresses, as the Inner Ring constructs them
	}
	if op == 5 {
		// the epoch is turned into bytes for the unlock details: one path per encoding length. Stated bound:
		// 8-byte epochs (the engine used to explore 4-byte ones only, without saying so)
		vAssume(amt >= -(1<<62) && amt < 1<<62)
	}

	p0, p1, pl, pf, pt, psup := balOf(a0), balOf(a1), balOf(lk), balOf(from), balOf(to), supply()
	vAssert(p0+p1+pl == psup && p0 >= 0 && p1 >= 0 && pl >= 0, "C01/setup-state-consistent")

	vSign(vAlphabetAcct(), alpha)
	vSign(a0, s0)
	vSign(a1, s1)
	vSign(thief, true)
	var done bool
	var res any
	switch op {
	case 0:
		done, res = vInvoke("balance", "transfer", from, to, amt, nil)
		if done && !res.(bool) {
			done = false
			vCover("transfer-refused-with-false")
			vAssert(vEventCount() == 0, "C02/refused-transfer-emits-nothing")
		}
	case 1:
		done, _ = vInvoke("balance", "transferX", from, to, amt, []byte{7})
	case 2:
		done, _ = vInvoke("balance", "mint", to, amt, []byte{7})
	case 3:
		done, _ = vInvoke("balance", "burn", from, amt, []byte{7})
	case 4:
		done, _ = vInvoke("balance", "lock", []byte{2}, from, to, amt, vInt("until2"))
	case 5:
		done, _ = vInvoke("balance", "newEpoch", amt)
	}
	q0, q1, ql, qf, qt, qsup := balOf(a0), balOf(a1), balOf(lk), balOf(from), balOf(to), supply()

	if op != 0 || (flen == 20 && tlen == 20) {
		vRequire(done, "operation-succeeded")
	}
	if !done {
		vCover("operation-refused")
		vAssert(q0 == p0 && q1 == p1 && ql == pl && qf == pf && qt == pt && qsup == psup, "C01/refusal-changes-nothing")
	}
	// (i) no negative balance
	vAssert(q0 >= 0 && q1 >= 0 && ql >= 0 && qf >= 0 && qt >= 0, "C01/non-negative")
	// (ii) supply = sum over the distinct accounts that can hold anything
	sum := q0 + q1 + ql
	fromNew := !vEq(from, a0) && !vEq(from, a1) && !vEq(from, lk)
	if fromNew {
		sum += qf
	}
	if fresh && !vEq(to, from) {
		sum += qt
	}
	vAssert(sum == qsup, "C01/sum-equals-supply")
	// (iii) supply moves only by a successful mint/burn, by the amount
	switch {
	case done && op == 2:
		vAssert(qsup == psup+amt, "C01/mint-adds-amount-to-supply")
	case done && op == 3:
		vAssert(qsup == psup-amt, "C01/burn-removes-amount-from-supply")
	default:
		vAssert(qsup == psup, "C01/supply-only-by-mint-burn")
	}
	// (v) the notification stream reproduces every balance; Transfer and TransferX come in pairs
	vAssert(applyEvents(a0, p0) == q0 && applyEvents(a1, p1) == q1 && applyEvents(lk, pl) == ql &&
		applyEvents(from, pf) == qf && applyEvents(to, pt) == qt, "C01/notifications-reproduce-balances")
	vAssert(eventsPaired(), "C01/one-TransferX-per-Transfer")
	if done && op <= 4 {
		vAssert(len(vEvents("balance", "Transfer")) == 1, "C01/exactly-one-Transfer-per-successful-transfer")
	}

	// C02: a balance may go down only with the holder's witness or the Alphabet's (Alphabet methods)
	alphaOp := alpha && op != 0
	vAssert(q0 >= p0 || alphaOp || (s0 && op == 0 && vEq(from, a0)), "C02/debit-a0-authorised")
	vAssert(q1 >= p1 || alphaOp || (s1 && op == 0 && vEq(from, a1)), "C02/debit-a1-authorised")
	vAssert(ql >= pl || alphaOp, "C02/debit-lock-account-authorised")
	if op != 0 {
		vAssert(alpha || !done, "C02/alphabet-methods-need-alphabet")
	}
}

// C02 with a THIRD-PARTY CONTRACT as the caller: the probe contract "puller" calls the public transfer with
// arguments of the transaction sender's choosing (param 0: 0 from the victim to the puller itself, 1 from the
// victim to another account, 2 from the puller's own funds to another account). Amount in Z, the victim's
// witness symbolic, a stranger always signs. The victim's balance can decrease only with the victim's witness;
// the calling contract may spend its own funds and nobody else's; a refusal reports false and changes nothing.
func VerifC02ThirdPartyContract() {
	kind := vParam(0)
	deployBalanceWorld()
	vDeploy("probe3")
	puller, victim, other := vContractHash("probe3"), vAcct("a0"), vAcct("a1")
	x, px, amt := vInt("victimBalance"), vInt("pullerBalance"), vInt("amount")
	vAssume(x >= 1 && x <= 1000000 && px >= 1 && px <= 1000000)
	vAssume(mint(victim, x))
	vAssume(mint(puller, px))
	victimSigns := vBool("victimSigns")
	from, to := victim, puller
	switch kind {
	case 1:
		to = other
	case 2:
		from, to = puller, other
	}
	sup := supply()
	vSign(victim, victimSigns)
	vSign(vAcct("stranger"), true)
	ok, r := vInvoke("probe3", "pull", vContractHash("balance"), from, to, amt)
	moved := ok && r.(bool)
	bv, bp, bo := balOf(victim), balOf(puller), balOf(other)
	vAssert(bv >= x || victimSigns, "C02/debit-a0-authorised")
	vAssert(bv+bp+bo == sup && supply() == sup, "C01/sum-equals-supply")
	if kind == 2 {
		// the account is the contract making the call: no witness is needed for its own funds
		vRequire(moved && amt > 0, "contract-spends-its-own-funds")
		vAssert(bv == x, "C02/debit-a0-authorised")
		if moved {
			vAssert(bp == px-amt && bo == amt && amt >= 0 && amt <= px, "C02/transfer-moves-exactly-the-amount")
		}
	} else {
		vCoverIf(!moved && !victimSigns && amt > 0 && amt <= x, "pull-of-foreign-funds-refused")
		if moved {
			vAssert(victimSigns && amt >= 0 && amt <= x, "C02/debit-a0-authorised")
		}
	}
	if !moved {
		vAssert(bv == x && bp == px && bo == 0 && vEventCount() == 0, "C02/refused-transfer-reports-false-and-changes-nothing")
	}
}
