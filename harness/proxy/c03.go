package proxy

// C03: every mutating method is inert without its documented witnesses. One job = one method (params:
// group, method, committee size). The signer set is symbolic over: the Alphabet account (2n/3+1), the
// committee-majority account (n/2+1), the Inner-Ring-majority account, a single committee member, the
// user/owner the arguments name, the node key the arguments name, plus an unrelated stranger (always).

var (
	sA, sC, sIR, sM, sU, sK bool
	user, node              []byte
)

func sign() {
	vSign(vAlphabetAcct(), sA)
	vSign(vCommitteeAcct(), sC)
	vSign(vIRMajorityAcct(), sIR)
	vSign(vMemberAcct(0), sM)
	vSign(user, sU)
	vSign(node, sK)
	vSign(vAcct("stranger"), true)
}

func asAlphabet(contract, method string, args ...any) {
	vSign(vAlphabetAcct(), true)
	ok, _ := vInvoke(contract, method, args...)
	vAssume(ok)
}

func blobOf(owner []byte, tag string) []byte {
	blob := append([]byte{1, 0, 1, 2, 3, 4, 0x35}, owner...)
	blob = append(blob, 9, 9, 9, 9)
	return append(blob, vBytes(tag, 6)...)
}

func deployFSChain() {
	vDeploy("nns", []any{[]any{"neofs", "ops@nspcc.io"}})
	vDeploy("netmap", false, nil, nil, nil, []any{[]byte("ContainerFee"), 0, []byte("ContainerAliasFee"), 0})
	vDeploy("balance", false, nil, nil)
	vDeploy("neofsid", false)
	vDeploy("container", false, vContractHash("netmap"), vContractHash("balance"), vContractHash("neofsid"), vContractHash("nns"), "container")
}

// check: the tested invocation `done` may have effects only if the documented requirement holds; with
// exactly the required witnesses it must be able to succeed with effects.
func check(done bool, req bool, id string) {
	fx := vEffects()
	vAssert(!(done && fx) || req, id)
	vRequire(done && fx, "succeeds-with-the-required-witnesses")
}

func VerifC03() {
	group, m := vParam(0), vParam(1)
	vCommittee(vParam(2))
	vSetIR(3)
	user, node = vAcct("user"), vAcct("node")
	sA, sC, sIR, sM, sU, sK = vBool("alphabetSigns"), vBool("committeeMajoritySigns"), vBool("innerRingMajoritySigns"), vBool("oneCommitteeMemberSigns"), vBool("userSigns"), vBool("nodeSigns")
	if vEq(vAlphabetAcct(), vCommitteeAcct()) { // committees of 1 or 4: the two multi-signature accounts coincide
		sA = sA || sC
		sC = sA
	}
	other := vAcct("other")
	var done bool
	switch group {
	case 0: // balance
		vDeploy("netmap", false, nil, nil, nil, []any{})
		vDeploy("balance", false, nil, nil)
		asAlphabet("balance", "mint", user, 100, []byte{})
		asAlphabet("balance", "lock", []byte{1}, user, vAcct("lockacc"), 10, 5)
		sign()
		switch m {
		case 0:
			done, _ = vInvoke("balance", "transfer", user, other, 7, nil)
			check(done, sU, "C03/balance.transfer-needs-the-holder")
		case 1:
			done, _ = vInvoke("balance", "transferX", user, other, 7, []byte{1})
			check(done, sA, "C03/balance.transferX-needs-the-Alphabet")
		case 2:
			done, _ = vInvoke("balance", "lock", []byte{2}, user, vAcct("lock2"), 7, 9)
			check(done, sA, "C03/balance.lock-needs-the-Alphabet")
		case 3:
			done, _ = vInvoke("balance", "mint", other, 7, []byte{1})
			check(done, sA, "C03/balance.mint-needs-the-Alphabet")
		case 4:
			done, _ = vInvoke("balance", "burn", user, 7, []byte{1})
			check(done, sA, "C03/balance.burn-needs-the-Alphabet")
		case 5:
			done, _ = vInvoke("balance", "newEpoch", 9)
			check(done, sA, "C03/balance.newEpoch-needs-the-Alphabet")
		case 6: // the public transfer with NO sender (Null): nobody's witness can stand for it, whoever signs;
			// it must never create or move anything (minting is the Alphabet's mint)
			done, _ = vInvoke("balance", "transfer", nil, other, 7, nil)
			vAssert(!(done && vEffects()), "C03/balance.transfer-from-nobody-never-moves-anything")
			_, b := vRead("balance", "balanceOf", other)
			vAssert(b.(int) == 0, "C03/balance.transfer-from-nobody-never-moves-anything")
			vCover("transfer-from-nobody-tried")
		}
	case 1: // netmap
		vDeploy("netmap", false, nil, nil, nil, []any{})
		if m != 6 { // newEpoch on a stand-alone Netmap: Balance checks the Alphabet witness itself when it is told
			// the epoch, which would refuse the tick and hide a Netmap that has stopped checking it
			vDeploy("balance", false, nil, nil)
		}
		asAlphabet("netmap", "addPeerIR", vBlob("node", 1))
		vSign(node, true)
		asAlphabet("netmap", "addNode", []any{[]any{"addr"}, nil, vKey("node"), 1})
		sign()
		switch m {
		case 0:
			done, _ = vInvoke("netmap", "addPeerIR", vBlob("node", 2))
			check(done, sA, "C03/netmap.addPeerIR-needs-the-Alphabet")
		case 1:
			done, _ = vInvoke("netmap", "addPeer", vBlob("node", 2))
			check(done, sA && sK, "C03/netmap.addPeer-needs-the-node-and-the-Alphabet")
		case 2:
			done, _ = vInvoke("netmap", "addNode", []any{[]any{"addr2"}, nil, vKey("node"), 1})
			check(done, sA && sK, "C03/netmap.addNode-needs-the-node-and-the-Alphabet")
		case 3:
			done, _ = vInvoke("netmap", "deleteNode", vKey("node"))
			check(done, sA, "C03/netmap.deleteNode-needs-the-Alphabet")
		case 4:
			done, _ = vInvoke("netmap", "updateState", 3, vKey("node"))
			check(done, sA && sK, "C03/netmap.updateState-needs-the-node-and-the-Alphabet")
		case 5:
			done, _ = vInvoke("netmap", "updateStateIR", 3, vKey("node"))
			check(done, sA, "C03/netmap.updateStateIR-needs-the-Alphabet")
		case 6:
			done, _ = vInvoke("netmap", "newEpoch", 1)
			check(done, sA, "C03/netmap.newEpoch-needs-the-Alphabet")
		case 7:
			done, _ = vInvoke("netmap", "setConfig", []byte{1}, []byte("key"), []byte("val"))
			check(done, sA, "C03/netmap.setConfig-needs-the-Alphabet")
		case 8:
			vDeploy("probe1")
			done, _ = vInvoke("netmap", "subscribeForNewEpoch", vContractHash("probe1"))
			check(done, sA, "C03/netmap.subscribeForNewEpoch-needs-the-Alphabet")
		case 9:
			done, _ = vInvoke("netmap", "updateSnapshotCount", 5)
			check(done, sA, "C03/netmap.updateSnapshotCount-needs-the-Alphabet")
		case 10:
			done, _ = vInvoke("netmap", "lastEpochBlock")
			vAssert(!vEffects(), "C03/netmap.lastEpochBlock-never-writes")
			vRequire(done, "succeeds-with-the-required-witnesses")
		}
	case 2: // container
		deployFSChain()
		b1 := blobOf(user, "b1")
		vSign(vAlphabetAcct(), true)
		ok, _ := vInvoke("container", "put", b1, vBytes("sig", 64), vKey("user"), []byte{})
		vAssume(ok)
		id1 := vSha256(b1)
		b2 := blobOf(user, "b2")
		vAssume(!vEq(b1, b2))
		sign()
		switch m {
		case 0:
			done, _ = vInvoke("container", "put", b2, vBytes("sig", 64), vKey("user"), []byte{})
			check(done, sA, "C03/container.put-needs-the-Alphabet")
		case 1:
			done, _ = vInvoke("container", "put", b2, vBytes("sig", 64), vKey("user"), []byte{}, true)
			check(done, sA, "C03/container.put-with-meta-needs-the-Alphabet")
		case 2:
			done, _ = vInvoke("container", "putNamed", b2, vBytes("sig", 64), vKey("user"), []byte{}, "nice", "")
			check(done, sA, "C03/container.putNamed-needs-the-Alphabet")
		case 3:
			done, _ = vInvoke("container", "delete", id1, vBytes("sig", 64), []byte{})
			check(done, sA, "C03/container.delete-needs-the-Alphabet")
		case 4:
			eacl := append(append([]byte{1, 0, 2, 3, 4, 5}, id1...), 7, 7)
			done, _ = vInvoke("container", "setEACL", eacl, vBytes("sig", 64), vKey("user"), []byte{})
			check(done, sA, "C03/container.setEACL-needs-the-Alphabet")
		case 5:
			done, _ = vInvoke("container", "addNextEpochNodes", id1, 0, []any{vKey("node")})
			check(done, sA, "C03/container.addNextEpochNodes-needs-the-Alphabet")
		case 6:
			done, _ = vInvoke("container", "commitContainerListUpdate", id1, []any{1})
			check(done, sA, "C03/container.commitContainerListUpdate-needs-the-Alphabet")
		case 7:
			done, _ = vInvoke("container", "newEpoch", 3)
			vAssert(!done || sA, "C03/container.newEpoch-needs-the-Alphabet")
			vRequire(done, "succeeds-with-the-required-witnesses")
		case 8:
			done, _ = vInvoke("container", "startContainerEstimation", 3)
			check(done, sA, "C03/container.startContainerEstimation-needs-the-Alphabet")
		case 9:
			done, _ = vInvoke("container", "stopContainerEstimation", 3)
			check(done, sA, "C03/container.stopContainerEstimation-needs-the-Alphabet")
		case 10:
			done, _ = vInvoke("container", "onNEP11Payment", user, 1, []byte("x"), nil)
			vAssert(!vEffects(), "C03/container.onNEP11Payment-never-writes")
			vRequire(done, "succeeds-with-the-required-witnesses")
		// the same operations with a NON-EMPTY session token: the owner's key is then not bound through NeoFSID
		// (whose own Alphabet check would otherwise stand in for a missing one here), and the container fee is 0
		// in this fixture, so nothing but the contract's own check guards them
		case 11:
			done, _ = vInvoke("container", "put", b2, vBytes("sig", 64), vKey("user"), []byte{1, 2, 3})
			check(done, sA, "C03/container.put-needs-the-Alphabet")
		case 12:
			done, _ = vInvoke("container", "putNamed", b2, vBytes("sig", 64), vKey("user"), []byte{1, 2, 3}, "nice", "")
			check(done, sA, "C03/container.putNamed-needs-the-Alphabet")
		case 13:
			done, _ = vInvoke("container", "delete", id1, vBytes("sig", 64), []byte{1, 2, 3})
			check(done, sA, "C03/container.delete-needs-the-Alphabet")
		case 14:
			eacl := append(append([]byte{1, 0, 2, 3, 4, 5}, id1...), 7, 7)
			done, _ = vInvoke("container", "setEACL", eacl, vBytes("sig", 64), vKey("user"), []byte{1, 2, 3})
			check(done, sA, "C03/container.setEACL-needs-the-Alphabet")
		case 15:
			done, _ = vInvoke("container", "put", b2, vBytes("sig", 64), vKey("user"), []byte{1, 2, 3}, true)
			check(done, sA, "C03/container.put-with-meta-needs-the-Alphabet")
		}
	case 3: // neofsid, reputation, audit
		vDeploy("neofsid", false)
		vDeploy("reputation", false)
		vDeploy("audit", false)
		owner := append(append([]byte{0x35}, user...), 1, 2, 3, 4)
		sign()
		switch m {
		case 0:
			done, _ = vInvoke("neofsid", "addKey", owner, []any{vKey("user")})
			check(done, sA, "C03/neofsid.addKey-needs-the-Alphabet")
		case 1:
			done, _ = vInvoke("neofsid", "removeKey", owner, []any{vKey("user")})
			vAssert(!done || sA, "C03/neofsid.removeKey-needs-the-Alphabet")
			vRequire(done, "succeeds-with-the-required-witnesses")
		case 2:
			done, _ = vInvoke("reputation", "put", 5, vKey("node"), []byte("trust"))
			check(done, sA, "C03/reputation.put-needs-the-Alphabet")
		case 3: // audit.put by the Inner Ring member ir0 (signer = node flag reused for that key)
			blob := []byte{0x0a, 0, 0x11, 5, 0, 0, 0, 0, 0, 0, 0, 0x1a, 0x22, 0x0a, 32}
			blob = append(blob, vBytes("cid", 32)...)
			blob = append(blob, 0x22, 33)
			blob = append(blob, vKey("ir0")...)
			vSign(vAcct("ir0"), vBool("auditorSigns"))
			done, _ = vInvoke("audit", "put", blob)
			check(done, vBool("auditorSigns"), "C03/audit.put-needs-the-auditor")
		case 4, 5: // the Inner Ring was re-designated (ir0..2 -> nir0..2) in the block right before the report:
			// the list in force is the new one already (RoleManagement: in force from the next block on)
			who := "ir0" // case 4: a member the designation dropped, whatever it signs
			if m == 5 {
				who = "nir0" // case 5: a member the designation brought in
			}
			blob := []byte{0x0a, 0, 0x11, 5, 0, 0, 0, 0, 0, 0, 0, 0x1a, 0x22, 0x0a, 32}
			blob = append(blob, vBytes("cid", 32)...)
			blob = append(blob, 0x22, 33)
			blob = append(blob, vKey(who)...)
			vSetIRNamed("nir", 3)
			sign()
			vSign(vAcct(who), vBool("auditorSigns"))
			done, _ = vInvoke("audit", "put", blob)
			if m == 4 {
				vAssert(!(done && vEffects()), "C03/audit.put-by-a-member-the-last-designation-dropped-is-refused")
				vCover("dropped-member-tried")
			} else {
				check(done, vBool("auditorSigns"), "C03/audit.put-needs-the-auditor")
			}
		}
	case 4: // main chain: neofs (Notary enabled), processing
		vDeploy("neofs", false, vContractHash("processing"), []any{vMemberKey(0)}, []any{[]byte("InnerRingCandidateFee"), 10, []byte("WithdrawFee"), 3})
		vDeploy("processing", vContractHash("neofs"))
		vFundGas(vContractHash("neofs"), 100)
		vFundGas(user, 100)
		vFundGas(node, 100)
		vSign(node, true)
		ok, _ := vInvoke("neofs", "innerRingCandidateAdd", vKey("node"))
		vAssume(ok)
		sign()
		switch m {
		case 0:
			done, _ = vInvoke("neofs", "cheque", []byte{1}, user, 5, []byte{2})
			check(done, sA, "C03/neofs.cheque-needs-the-Alphabet")
		case 1:
			done, _ = vInvoke("neofs", "alphabetUpdate", []byte{1}, []any{vKey("node")})
			check(done, sA, "C03/neofs.alphabetUpdate-needs-the-Alphabet")
		case 2:
			done, _ = vInvoke("neofs", "setConfig", []byte{1}, []byte("k"), []byte("v"))
			check(done, sA, "C03/neofs.setConfig-needs-the-Alphabet")
		case 3: // removal: the candidate itself or the multi-signature of the stored Alphabet list (one key: member 0)
			done, _ = vInvoke("neofs", "innerRingCandidateRemove", vKey("node"))
			check(done, sK || storedAlphabetSigns(), "C03/neofs.innerRingCandidateRemove-needs-the-candidate-or-the-Alphabet")
		case 4:
			done, _ = vInvoke("neofs", "innerRingCandidateAdd", vKey("user"))
			check(done, sU, "C03/neofs.innerRingCandidateAdd-needs-the-candidate")
		case 5:
			done, _ = vInvoke("neofs", "withdraw", user, 1)
			check(done, sU, "C03/neofs.withdraw-needs-the-user")
		case 6:
			done, _ = vInvoke("neofs", "bind", user, []any{vKey("node")})
			check(done, sU, "C03/neofs.bind-needs-the-user")
		case 7:
			done, _ = vInvoke("neofs", "unbind", user, []any{vKey("node")})
			check(done, sU, "C03/neofs.unbind-needs-the-user")
		}
	case 5: // alphabet contract #0, proxy
		vDeploy("netmap", false, nil, nil, nil, []any{})
		vDeploy("proxy")
		vDeploy("alphabet", false, vContractHash("netmap"), vContractHash("proxy"), "Az", 0, vParam(2))
		vFundGas(vContractHash("alphabet"), 1000)
		sign()
		switch m {
		case 0:
			// one more offered signer: the INNER RING node that stands at this contract's index in the designated
			// list. The contract's own node is the committee member at that index, not the Inner Ring's
			irFirst := vAcct("ir0")
			if vEq(vKey("ir1"), vIRKey(0)) {
				irFirst = vAcct("ir1")
			}
			if vEq(vKey("ir2"), vIRKey(0)) {
				irFirst = vAcct("ir2")
			}
			vSign(irFirst, vBool("innerRingNodeAtTheContractsIndexSigns"))
			done, _ = vInvoke("alphabet", "emit")
			check(done, sM, "C03/alphabet.emit-needs-its-own-node")
		case 1:
			done, _ = vInvoke("alphabet", "vote", 0, []any{vKey("node")})
			vAssert(!done || sA, "C03/alphabet.vote-needs-the-Alphabet")
			vRequire(done, "succeeds-with-the-required-witnesses")
		}
	}
}

// storedAlphabetSigns: the NeoFS contract stores one Alphabet key (committee member 0); its 1-of-1
// multi-signature account is among the offered signers only when the committee has one member.
func storedAlphabetSigns() bool {
	return vParam(2) == 1 && sA // a committee of one: member 0's 1-of-1 account IS the Alphabet account
}

// C03 verify: Proxy and Alphabet accept a transaction only with an Alphabet (2n/3+1) or committee-majority
// multi-signature, Processing only with the multi-signature of the Alphabet keys stored in NeoFS.
func VerifC03Verify() {
	vCommittee(vParam(0))
	vSetIR(3)
	user, node = vAcct("user"), vAcct("node")
	sA, sC, sIR, sM, sU, sK = vBool("alphabetSigns"), vBool("committeeMajoritySigns"), vBool("innerRingMajoritySigns"), vBool("oneCommitteeMemberSigns"), vBool("userSigns"), vBool("nodeSigns")
	if vEq(vAlphabetAcct(), vCommitteeAcct()) {
		sA = sA || sC
		sC = sA
	}
	vDeploy("netmap", false, nil, nil, nil, []any{})
	vDeploy("proxy")
	vDeploy("alphabet", false, vContractHash("netmap"), vContractHash("proxy"), "Az", 0, vParam(0))
	vDeploy("neofs", false, vContractHash("processing"), []any{vMemberKey(0), vKey("al1"), vKey("al2"), vKey("al3")}, []any{})
	vDeploy("processing", vContractHash("neofs"))
	sign()
	okP, rp := vInvoke("proxy", "verify")
	sign()
	okA, ra := vInvoke("alphabet", "verify")
	sign()
	okX, rx := vInvoke("processing", "verify")
	vAssert(!(okP && rp.(bool)) || sA || sC, "C03/proxy.verify-accepts-only-Alphabet-multi-signatures")
	vAssert(!(okA && ra.(bool)) || sA || sC, "C03/alphabet.verify-accepts-only-Alphabet-multi-signatures")
	vAssert(!(okX && rx.(bool)), "C03/processing.verify-accepts-only-the-stored-Alphabet-multi-signature")
	vRequire(okP && rp.(bool) && okA && ra.(bool), "verified-with-a-multi-signature")
}
