package proxy

var c16Names = []string{"alphabet", "audit", "balance", "container", "neofs", "neofsid", "netmap", "nns", "processing", "proxy", "reputation"}

// deployOld deploys contract #which (and what it needs) as a release reporting the given version.
func deployOld(which int, v int) {
	name := c16Names[which]
	switch name {
	case "alphabet":
		vDeploy("proxy")
		vDeployVersion(name, v, false, vAcct("netmap-placeholder"), vContractHash("proxy"), "Az", 0, 1)
	case "audit", "neofsid", "reputation":
		vDeployVersion(name, v, false)
	case "balance":
		vDeploy("netmap", false, nil, nil, nil, []any{})
		vDeployVersion(name, v, false, nil, nil)
	case "container":
		vDeploy("nns", []any{[]any{"neofs", "ops@nspcc.io"}})
		vDeploy("netmap", false, nil, nil, nil, []any{})
		vDeploy("balance", false, nil, nil)
		vDeploy("neofsid", false)
		vDeployVersion(name, v, false, vContractHash("netmap"), vContractHash("balance"), vContractHash("neofsid"), vContractHash("nns"), "container")
	case "neofs":
		vDeployVersion(name, v, false, vContractHash("processing"), []any{vKey("al0")}, []any{})
	case "netmap":
		vDeployVersion(name, v, false, nil, nil, nil, []any{})
	case "nns":
		vDeployVersion(name, v, []any{[]any{"neofs", "ops@nspcc.io"}})
	case "processing":
		vDeployVersion(name, v, vContractHash("neofs"))
	case "proxy":
		vDeployVersion(name, v)
	}
}

// C16 gate: contract #param0 deployed as a release of symbolic version v; update with a symbolic signer set.
// It must complete exactly with the committee majority (main-chain contracts: the Inner Ring majority) and
// oldest-supported <= v < repository version; the version reported afterwards is the repository's.
func VerifC16Gate() {
	which := vParam(0)
	vCommittee(vParam(1))
	name := c16Names[which]
	v := vInt("deployedVersion")
	vSetIR(3)
	deployOld(which, v)
	committee, alphabet, irMajority := vBool("committeeMajoritySigns"), vBool("alphabetSigns"), vBool("innerRingMajoritySigns")
	vSign(vCommitteeAcct(), committee)
	if !vEq(vCommitteeAcct(), vAlphabetAcct()) {
		vSign(vAlphabetAcct(), alphabet)
	}
	vSign(vIRMajorityAcct(), irMajority)
	vSign(vAcct("stranger"), true)
	var done bool
	if name == "alphabet" {
		done, _ = vUpdateFrom(name, v, false, nil, nil, "Az")
	} else {
		done, _ = vUpdateFrom(name, v)
	}
	authorised := committee
	if name == "neofs" || name == "processing" {
		authorised = irMajority
	}
	cur := vRepoVersion()
	// Netmap (< 0.19.0) and NNS (< 0.18.0) migrate old-layout data that a fresh deployment of the current
	// sources does not contain; on this fixture their update is only required to complete from later versions
	lo := 15004
	if name == "netmap" {
		lo = 19000
	}
	if name == "nns" {
		lo = 18000
	}
	vAssert(!done || (authorised && v >= 15004 && v < cur), "C16/update-completes-only-with-the-required-majority-and-a-supported-older-version")
	vAssert(done || !(authorised && v >= lo && v < cur), "C16/update-from-a-supported-version-completes-with-the-required-majority")
	// the same gate read as C03 reads it (this harness is also registered there): update is inert without the
	// documented majority — the committee's, for NeoFS and Processing the designated NeoFS Alphabet's
	vAssert(!(done || vEffects()) || authorised, "C03/update-needs-the-documented-majority")
	vRequire(done, "update-completed")
	vCoverIf(!done && authorised, "update-refused-for-its-version")
	if !done {
		vAssert(!vEffects(), "C16/refused-update-changes-nothing")
	}
	_, r := vRead(name, "version")
	vAssert(r.(int) == cur || !done, "C16/contract-reports-the-repository-version")
}

func alphaDo(contract, method string, args ...any) {
	vSign(vAlphabetAcct(), true)
	ok, _ := vInvoke(contract, method, args...)
	vAssume(ok)
}

// C16 preservation (current storage layout): a state is built through the public API, the contract is
// upgraded from a release reporting a symbolic supported version, and the read API must answer as before.
// param 0: 0 balance, 1 netmap, 2 container, 3 nns.
func VerifC16Preserve() {
	which := vParam(0)
	v := vInt("deployedVersion")
	cur := vRepoVersion()
	vSetIR(3)
	user, other := vAcct("user"), vAcct("other")
	switch which {
	case 0: // balance: balances, a live lock, supply
		vDeploy("netmap", false, nil, nil, nil, []any{})
		vDeployVersion("balance", v, false, nil, nil)
		x, y := vInt("x"), vInt("y")
		vAssume(x >= 1 && x <= 1000000 && y >= 0 && y <= x)
		alphaDo("balance", "mint", user, x, []byte{})
		alphaDo("balance", "mint", other, 7, []byte{})
		alphaDo("balance", "lock", []byte{1}, user, vAcct("lockacc"), y, 50)
		vAssume(v >= 15004 && v < cur)
		vSign(vCommitteeAcct(), true)
		done, _ := vUpdateFrom("balance", v)
		vRequire(done, "balance-upgraded")
		_, b1 := vRead("balance", "balanceOf", user)
		_, b2 := vRead("balance", "balanceOf", other)
		_, b3 := vRead("balance", "balanceOf", vAcct("lockacc"))
		_, sup := vRead("balance", "totalSupply")
		vAssert(b1.(int) == x-y && b2.(int) == 7 && b3.(int) == y && sup.(int) == x+7, "C16/upgrade-preserves-balances-and-supply")
		// the lock is still a lock: it is released at its epoch
		alphaDo("balance", "newEpoch", 50)
		_, b1 = vRead("balance", "balanceOf", user)
		vAssert(b1.(int) == x, "C16/upgrade-preserves-lock-accounts")
	case 1: // netmap: epoch, maps, candidates, configuration, subscribers
		vDeployVersion("netmap", v, false, nil, nil, nil, []any{[]byte("key0"), []byte("val0")})
		vDeploy("balance", false, nil, nil)
		alphaDo("netmap", "addPeerIR", vBlob("node", 1))
		vSign(vAcct("node"), true)
		alphaDo("netmap", "addNode", []any{[]any{"addr"}, nil, vKey("node"), 1})
		alphaDo("netmap", "newEpoch", 1)
		alphaDo("netmap", "setConfig", []byte{1}, []byte("key1"), vBytes("val1", 3))
		alphaDo("netmap", "newEpoch", 2)
		vAssume(v >= 19000 && v < cur)
		vSign(vCommitteeAcct(), true)
		done, _ := vUpdateFrom("netmap", v)
		vRequire(done, "netmap-upgraded")
		_, ep := vRead("netmap", "epoch")
		_, nm := vRead("netmap", "netmap")
		_, s1 := vRead("netmap", "snapshot", 1)
		_, ln := vRead("netmap", "listNodes", 2)
		_, cands := vRead("netmap", "netmapCandidates")
		_, c0 := vRead("netmap", "config", []byte("key0"))
		_, c1 := vRead("netmap", "config", []byte("key1"))
		_, lc := vRead("netmap", "listConfig")
		vAssert(ep.(int) == 2 && len(nm.([]any)) == 1 && len(s1.([]any)) == 1 && len(ln.([]any)) == 1 && len(cands.([]any)) == 1, "C16/upgrade-preserves-epoch-maps-and-candidates")
		vAssert(c0 != nil && vEq(c0.([]byte), []byte("val0")) && c1 != nil && vEq(c1.([]byte), vBytes("val1", 3)) && len(lc.([]any)) == 2, "C16/upgrade-preserves-the-configuration")
		alphaDo("netmap", "newEpoch", 3) // subscribers and the ring still work
		_, ep = vRead("netmap", "epoch")
		vAssert(ep.(int) == 3, "C16/upgraded-contract-keeps-ticking")
	case 2: // container: blob, owner index, eACL, count
		deployFSChainFor(v)
		b1 := blobOf(user, "b1")
		vSign(vAlphabetAcct(), true)
		ok, _ := vInvoke("container", "put", b1, vBytes("sig", 64), vKey("user"), []byte{})
		vAssume(ok)
		id1 := vSha256(b1)
		eacl := append(append([]byte{1, 0, 2, 3, 4, 5}, id1...), 7, 7)
		alphaDo("container", "setEACL", eacl, vBytes("sig", 64), vKey("user"), []byte{})
		vAssume(v >= 15004 && v < cur)
		vSign(vCommitteeAcct(), true)
		done, _ := vUpdateFrom("container", v)
		vRequire(done, "container-upgraded")
		okG, _ := vRead("container", "get", id1)
		okO, o := vRead("container", "owner", id1)
		okE, _ := vRead("container", "eACL", id1)
		_, cnt := vRead("container", "count")
		_, l := vRead("container", "list", b1[6:31])
		vAssert(okG && okO && okE && vEq(o.([]byte), b1[6:31]) && cnt.(int) == 1 && len(l.([]any)) == 1, "C16/upgrade-preserves-containers-and-the-owner-index")
	case 3: // nns: names, owners, records
		vDeployVersion("nns", v, []any{[]any{"com", "ops@nspcc.io"}})
		vSign(user, true)
		ok, r := vInvoke("nns", "register", "a.com", user, "e@nspcc.io", 1, 2, 100000, 3)
		vAssume(ok && r.(bool))
		vSign(user, true)
		ok, _ = vInvoke("nns", "addRecord", "a.com", 16, "text")
		vAssume(ok)
		vAssume(v >= 18000 && v < cur)
		vSign(vCommitteeAcct(), true)
		done, _ := vUpdateFrom("nns", v)
		vRequire(done, "nns-upgraded")
		_, ow := vRead("nns", "ownerOf", "a.com")
		_, recs := vRead("nns", "getRecords", "a.com", 16)
		_, ts := vRead("nns", "totalSupply")
		_, bal := vRead("nns", "balanceOf", user)
		_, av := vRead("nns", "isAvailable", "b.com")
		vAssert(vEq(ow.([]byte), user) && len(recs.([]any)) == 1 && ts.(int) == 1 && bal.(int) == 1 && av.(bool), "C16/upgrade-preserves-names-owners-and-records")
	}
}

func deployFSChainFor(v int) {
	vDeploy("nns", []any{[]any{"neofs", "ops@nspcc.io"}})
	vDeploy("netmap", false, nil, nil, nil, []any{[]byte("ContainerFee"), 0, []byte("ContainerAliasFee"), 0})
	vDeploy("balance", false, nil, nil)
	vDeploy("neofsid", false)
	vDeployVersion("container", v, false, vContractHash("netmap"), vContractHash("balance"), vContractHash("neofsid"), vContractHash("nns"), "container")
}

// C16 gate right after a change of the Inner Ring (Processing, whose update is authorised by the designated
// NeoFS Alphabet): RoleManagement puts a designation in force from the NEXT block, and the contract asks for
// the keys of index+1 = the block carrying the update. So the designation made in the block just before the
// update is the one that counts: the new majority is authorised, the replaced one is not.
// param 0: committee size; param 1: blocks between the designation and the update (0: the very next block);
// param 2: the contract (8 Processing, which asks RoleManagement itself; 4 NeoFS, which goes through
// common.InnerRingNodes).
func VerifC16GateAfterDesignation() {
	vCommittee(vParam(0))
	v := vInt("deployedVersion")
	cur := vRepoVersion()
	vSetIR(3)
	which := vParam(2)
	name := c16Names[which]
	deployOld(which, v)
	replaced := vIRMajorityAcct()
	vSetIRNamed("nir", 3)
	if vParam(1) > 0 {
		vAdvance(vParam(1))
	}
	current := vIRMajorityAcct()
	byReplaced, byCurrent := vBool("replacedInnerRingMajoritySigns"), vBool("newInnerRingMajoritySigns")
	vSign(replaced, byReplaced)
	vSign(current, byCurrent)
	vSign(vAcct("stranger"), true)
	done, _ := vUpdateFrom(name, v)
	vAssert(!done || (byCurrent && v >= 15004 && v < cur), "C16/update-completes-only-with-the-required-majority-and-a-supported-older-version")
	vAssert(done || !(byCurrent && v >= 15004 && v < cur), "C16/update-from-a-supported-version-completes-with-the-required-majority")
	vRequire(done, "update-completed-under-the-new-inner-ring")
	vCoverIf(!done && byReplaced && !byCurrent && v >= 15004 && v < cur, "replaced-inner-ring-is-refused")
	if !done {
		vAssert(!vEffects(), "C16/refused-update-changes-nothing")
	}
}
