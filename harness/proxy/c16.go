package proxy

var c16Names = []string{"alphabet", "audit", "balance", "container", "neofs", "neofsid", "netmap", "nns", "processing", "proxy", "reputation"}

// deployOld deploys contract #which (and what it needs) as a release reporting the given version.
func deployOld(which int, v int) {
	name := c16Names[which]
	switch name {
	case "alphabet":
		vDeploy("proxy")
		vDeployVersion(name, v, false, vAcct("netmap-placeholder"), vContractHash("proxy"), "Az", 0, 1)
	case "audit", "neofsid", "reputation":
		vDeployVersion(name, v, false)
	case "balance":
		vDeploy("netmap", false, nil, nil, nil, []any{})
		vDeployVersion(name, v, false, nil, nil)
	case "container":
		vDeploy("nns", []any{[]any{"neofs", "ops@nspcc.io"}})
		vDeploy("netmap", false, nil, nil, nil, []any{})
		vDeploy("balance", false, nil, nil)
		vDeploy("neofsid", false)
		vDeployVersion(name, v, false, vContractHash("netmap"), vContractHash("balance"), vContractHash("neofsid"), vContractHash("nns"), "container")
	case "neofs":
		vDeployVersion(name, v, false, vContractHash("processing"), []any{vKey("al0")}, []any{})
	case "netmap":
		vDeployVersion(name, v, false, nil, nil, nil, []any{})
	case "nns":
		vDeployVersion(name, v, []any{[]any{"neofs", "ops@nspcc.io"}})
	case "processing":
		vDeployVersion(name, v, vContractHash("neofs"))
	case "proxy":
		vDeployVersion(name, v)
	}
}

// C16 gate: contract #param0 deployed as a release of symbolic version v; update with a symbolic signer set.
// It must complete exactly with the committee majority (main-chain contracts: the Inner Ring majority) and
// oldest-supported <= v < repository version; the version reported afterwards is the repository's.
func VerifC16Gate() {
	which := vParam(0)
	vCommittee(vParam(1))
	name := c16Names[which]
	v := vInt("deployedVersion")
	vSetIR(3)
	deployOld(which, v)
	committee, alphabet, irMajority := vBool("committeeMajoritySigns"), vBool("alphabetSigns"), vBool("innerRingMajoritySigns")
	vSign(vCommitteeAcct(), committee)
	if !vEq(vCommitteeAcct(), vAlphabetAcct()) {
		vSign(vAlphabetAcct(), alphabet)
	}
	vSign(vIRMajorityAcct(), irMajority)
	vSign(vAcct("stranger"), true)
	var done bool
	if name == "alphabet" {
		done, _ = vUpdateFrom(name, v, false, nil, nil, "Az")
	} else {
		done, _ = vUpdateFrom(name, v)
	}
	authorised := committee
	if name == "neofs" || name == "processing" {
		authorised = irMajority
	}
	cur := vRepoVersion()
	// Netmap (< 0.19.0) and NNS (< 0.18.0) migrate old-layout data that a fresh deployment of the current
	// sources does not contain; on this fixture their update is only required to complete from later versions
	lo := 15004
	if name == "netmap" {
		lo = 19000
	}
	if name == "nns" {
		lo = 18000
	}
	vAssert(!done || (authorised && v >= 15004 && v < cur), "C16/update-completes-only-with-the-required-majority-and-a-supported-older-version")
	vAssert(done || !(authorised && v >= lo && v < cur), "C16/update-from-a-supported-version-completes-with-the-required-majority")
	vRequire(done, "update-completed")
	vCoverIf(!done && authorised, "update-refused-for-its-version")
	if !done {
		vAssert(!vEffects(), "C16/refused-update-changes-nothing")
	}
	_, r := vRead(name, "version")
	vAssert(r.(int) == cur || !done, "C16/contract-reports-the-repository-version")
}
