package audit

func encA(e int) []byte {
	var buf any = e
	return buf.([]byte)
}

func pre(s, p []byte) bool {
	if len(p) > len(s) {
		return false
	}
	return vEq(s[:len(p)], p)
}

func inList(list [][]byte, x []byte) bool {
	found := false
	for _, it := range list {
		if vEq(it, x) {
			found = true
		}
	}
	return found
}

func classOf(e, c int) bool {
	switch c {
	case 0:
		return e == 0
	case 1:
		return e >= 1 && e <= 127
	case 2:
		return e >= 128 && e <= 32767
	}
	return e >= 32768 && e <= 65535
}

// auditBlob: a well-formed V2 DataAuditResult header: version length 0, 8-byte LE epoch (two symbolic low
// bytes), 32-byte container id, 33-byte public key of the auditor.
func auditBlob(tag string, key []byte) (blob []byte, epoch int, cid []byte) {
	eb := vBytes("epochBytes_"+tag, 2)
	cid = vBytes("cid_"+tag, 32)
	blob = []byte{0x0a, 0, 0x11, eb[0], eb[1], 0, 0, 0, 0, 0, 0, 0x1a, 0x22, 0x0a, 32}
	blob = append(blob, cid...)
	blob = append(blob, 0x22, 33)
	blob = append(blob, key...)
	blob = append(blob, vBytes("rest_"+tag, 3)...)
	return blob, int(eb[0]) + 256*int(eb[1]), cid
}

// C20 audit: two results put by two Inner Ring members (epoch classes = params 0,1), then the listing
// methods with a symbolic epoch (class param 2) and get.
func VerifC20Audit() {
	vDeploy("audit", false)
	vSetIR(2)
	b1, e1, c1 := auditBlob("1", vIRKey(0))
	b2, e2, c2 := auditBlob("2", vIRKey(1))
	vAssume(classOf(e1, vParam(0)) && classOf(e2, vParam(1)))
	// access: the auditor's own witness and Inner Ring membership
	vSign(vAcct("stranger"), true)
	ok, _ := vInvoke("audit", "put", b1)
	vAssert(!ok, "C20/audit-put-needs-the-auditor-witness")
	outsider, _, _ := auditBlob("x", vKey("outsider"))
	vSign(vAcct("outsider"), true)
	ok, _ = vInvoke("audit", "put", outsider)
	vAssert(!ok, "C20/audit-put-only-from-inner-ring-members")
	signer0, signer1 := vAcct("ir0"), vAcct("ir1")
	if !vEq(vKey("ir0"), vIRKey(0)) { // the designated list is sorted by key
		signer0, signer1 = signer1, signer0
	}
	// several signers: an Inner Ring member co-signing does not make an outsider's result acceptable, and
	// another member's witness does not stand for the auditor's
	vSign(vAcct("outsider"), true)
	vSign(signer0, true)
	ok, _ = vInvoke("audit", "put", outsider)
	vAssert(!ok, "C20/audit-put-only-from-inner-ring-members")
	vSign(vAcct("outsider"), true)
	vSign(signer1, true)
	ok, _ = vInvoke("audit", "put", b1)
	vAssert(!ok, "C20/audit-put-needs-the-auditor-witness")
	vSign(signer0, true)
	ok, _ = vInvoke("audit", "put", b1)
	vAssume(ok)
	vSign(signer1, true)
	ok, _ = vInvoke("audit", "put", b2)
	vAssume(ok)
	id1 := append(append(encA(e1), c1...), vSha256(vIRKey(0))[:24]...)
	id2 := append(append(encA(e2), c2...), vSha256(vIRKey(1))[:24]...)

	_, r := vRead("audit", "list")
	all := r.([][]byte)
	vAssert(len(all) == 2 && inList(all, id1) && inList(all, id2), "C20/audit-list-returns-every-result")
	_, g := vRead("audit", "get", id1)
	vAssert(g != nil && vEq(g.([]byte), b1), "C20/audit-get-returns-what-was-put")

	q := vInt("q")
	vAssume(classOf(q, vParam(2)))
	qb := encA(q)
	_, r = vRead("audit", "listByEpoch", q)
	byEpoch := r.([][]byte)
	_, r = vRead("audit", "listByCID", q, c1)
	byCID := r.([][]byte)
	_, r = vRead("audit", "listByNode", q, c1, vIRKey(0))
	byNode := r.([][]byte)
	vAssert(e1 != q || (inList(byEpoch, id1) && inList(byCID, id1) && inList(byNode, id1)), "C20/audit-listings-return-what-was-put")
	vAssert(e2 != q || inList(byEpoch, id2), "C20/audit-listings-return-what-was-put")
	if vParam(0) == vParam(2) && vParam(1) == vParam(2) {
		vCoverIf(e1 == q && e2 == q, "both-results-of-the-queried-epoch")
	}
	for k := 0; k < 2; k++ {
		e, id := e1, id1
		if k == 1 {
			e, id = e2, id2
		}
		if e != q {
			if pre(id, qb) { // known finding D7 (variable-length epoch prefix)
				vKnown(!inList(byEpoch, id), "C20/KF-D7-audit-listByEpoch-prefix")
			} else {
				vAssert(!inList(byEpoch, id), "C20/audit-listByEpoch-only-the-queried-epoch")
			}
			if pre(id, append(qb, c1...)) {
				vKnown(!inList(byCID, id) && !inList(byNode, id), "C20/KF-D7-audit-listByCID-prefix")
			} else {
				vAssert(!inList(byCID, id) && !inList(byNode, id), "C20/audit-listByCID-only-the-queried-epoch-and-container")
			}
		}
	}
	if e2 == q && !vEq(c1, c2) {
		vAssert(!inList(byCID, id2), "C20/audit-listByCID-only-the-queried-container")
	}
	if e2 == q && vEq(c1, c2) {
		vCover("same-epoch-same-container-other-node")
		vAssert(inList(byCID, id2) && !inList(byNode, id2), "C20/audit-listByNode-only-the-queried-node")
	}
}
