package audit

// C16, Audit storage of an older release preset raw: two results of two Inner Ring members under their ids
// (epoch||cid||sha256(key)[:24], epochs 1..127), the Netmap hash and the 'notary' flag releases before 0.17.0
// stored. After the working tree's _deploy(data||v, true): get answers the preset results, list lists
// exactly the two ids (list enumerates EVERY storage key, so any legacy item left behind shows up there),
// the by-epoch listing finds them and a new result can be put.
// param 0: era (0: v in [0.15.4, 0.17.0), 1: [0.17.0, current)); param 1: the notary flag of era 0 (1 false, 2 true).
func VerifC16MigrateAudit() {
	era, notary := vParam(0), vParam(1)
	v := vInt("deployedVersion")
	cur := vRepoVersion()
	if era == 0 {
		vAssume(v >= 15004 && v < 17000)
	} else {
		vAssume(v >= 17000)
	}
	vAssume(v < cur)
	vPresetDeploy("audit")
	vSetIR(2)
	b1, e1, c1 := auditBlob("1", vIRKey(0))
	b2, e2, c2 := auditBlob("2", vIRKey(1))
	vAssume(e1 >= 1 && e1 <= 127 && e2 >= 1 && e2 <= 127 && e1 != e2)
	id1 := append(append(encA(e1), c1...), vSha256(vIRKey(0))[:24]...)
	id2 := append(append(encA(e2), c2...), vSha256(vIRKey(1))[:24]...)
	vPreset("audit", id1, b1)
	vPreset("audit", id2, b2)
	if era == 0 {
		// releases before 0.17.0 always stored the flag and the Netmap hash; Audit never collected votes, so
		// there is no 'ballots' item (and the migration does not look for one)
		vPreset("audit", []byte("netmapScriptHash"), vAcct("netmap-placeholder"))
		vPreset("audit", []byte("notary"), notary == 2)
	}
	done, _ := vUpdateFromPreset("audit", v)
	vRequire(done, "legacy-audit-upgraded")
	if !done {
		return
	}
	_, ver := vRead("audit", "version")
	vAssert(ver.(int) == cur, "C16/contract-reports-the-repository-version")
	ok1, g1 := vRead("audit", "get", id1)
	ok2, g2 := vRead("audit", "get", id2)
	vAssert(ok1 && ok2 && vEq(g1.([]byte), b1) && vEq(g2.([]byte), b2), "C16/migration-preserves-audit-results")
	_, r := vRead("audit", "list")
	all := r.([][]byte)
	vAssert(len(all) == 2 && inList(all, id1) && inList(all, id2), "C16/migration-leaves-exactly-the-results-listed")
	_, r = vRead("audit", "listByEpoch", e1)
	le := r.([][]byte)
	vAssert(len(le) == 1 && vEq(le[0], id1), "C16/migration-preserves-the-epoch-listing")
	// the upgraded contract accepts a further result
	b3, e3, c3 := auditBlob("3", vIRKey(0))
	vAssume(e3 >= 1 && e3 <= 127 && e3 != e1 && e3 != e2)
	signer0 := vAcct("ir0")
	if !vEq(vKey("ir0"), vIRKey(0)) {
		signer0 = vAcct("ir1")
	}
	vSign(signer0, true)
	ok, _ := vInvoke("audit", "put", b3)
	id3 := append(append(encA(e3), c3...), vSha256(vIRKey(0))[:24]...)
	_, r = vRead("audit", "list")
	all = r.([][]byte)
	vAssert(ok && len(all) == 3 && inList(all, id3), "C16/upgraded-audit-accepts-results")
}
