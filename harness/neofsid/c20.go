package neofsid

func idOp(method string, alpha bool, owner []byte, keys ...any) bool {
	vSign(vAlphabetAcct(), alpha)
	vSign(vAcct("stranger"), true)
	ok, _ := vInvoke("neofsid", method, owner, keys)
	return ok
}

func keysOf(owner []byte) [][]byte {
	_, r := vRead("neofsid", "key", owner)
	return r.([][]byte)
}

func has(list [][]byte, x []byte) bool {
	found := false
	for _, it := range list {
		if vEq(it, x) {
			found = true
		}
	}
	return found
}

// C20 NeoFSID: addKey(o1,[k1,k2]), addKey(o2,[k3]), removeKey(o3,[k4]) with symbolic 25-byte owners and
// 33-byte keys (free to coincide), then key(oq) for a symbolic owner.
func VerifC20NeoFSID() {
	vDeploy("neofsid", false)
	o1, o2, o3, oq := vBytes("o1", 25), vBytes("o2", 25), vBytes("o3", 25), vBytes("oq", 25)
	k1, k2, k3, k4 := vBytes("k1", 33), vBytes("k2", 33), vBytes("k3", 33), vBytes("k4", 33)
	vAssert(!idOp("addKey", false, o1, k1), "C20/neofsid-addKey-needs-alphabet")
	vAssume(idOp("addKey", true, o1, k1, k2))
	vAssume(idOp("addKey", true, o2, k3))
	vAssert(!idOp("removeKey", false, o1, k1), "C20/neofsid-removeKey-needs-alphabet")
	vAssume(idOp("removeKey", true, o3, k4))
	got := keysOf(oq)
	// reference: the set bound to oq
	for i := 0; i < 3; i++ {
		o, k := o1, k1
		if i == 1 {
			k = k2
		}
		if i == 2 {
			o, k = o2, k3
		}
		want := vEq(o, oq) && !(vEq(o3, oq) && vEq(k4, k))
		vAssert(has(got, k) == want || (has(got, k) && bound(oq, k, o1, k1, o2, k3, o3, k4, k2)), "C20/neofsid-key-returns-exactly-the-bound-keys")
	}
	for _, g := range got {
		vAssert(vEq(g, k1) || vEq(g, k2) || vEq(g, k3), "C20/neofsid-key-returns-only-added-keys")
	}
	vCoverIf(len(got) == 2, "two-keys-bound")
	vCoverIf(len(got) == 0 && vEq(oq, o1), "all-keys-removed-or-none")
}

// bound: is key k bound to owner oq by any of the three additions (and not removed)?
func bound(oq, k, o1, k1, o2, k3, o3, k4, k2 []byte) bool {
	removed := vEq(o3, oq) && vEq(k4, k)
	a := vEq(o1, oq) && (vEq(k, k1) || vEq(k, k2))
	b := vEq(o2, oq) && vEq(k, k3)
	return (a || b) && !removed
}
