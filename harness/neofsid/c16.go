package neofsid

import "github.com/nspcc-dev/neofs-contract/common"

func presetNotary(contract string, notary int) (pending bool) {
	switch notary {
	case 1:
		vPreset(contract, []byte("notary"), false)
	case 2:
		vPreset(contract, []byte("notary"), true)
		vPreset(contract, []byte("ballots"), vSerialize([]common.Ballot{}))
	case 3:
		vPreset(contract, []byte("notary"), true)
		vPreset(contract, []byte("ballots"), vSerialize([]common.Ballot{{ID: []byte("id"), Voters: nil, Height: -100000}}))
	case 4:
		vPreset(contract, []byte("notary"), true)
		vPreset(contract, []byte("ballots"), vSerialize([]common.Ballot{{ID: []byte("id"), Voters: nil, Height: 1 << 30}}))
		pending = true
	}
	return pending
}

// C16, NeoFSID storage of an older release preset raw: two owners with symbolic 25-byte ids, three symbolic
// keys, the contract hashes older releases stored and the 'notary' flag of releases before 0.17.0. The
// working tree's _deploy(data||v, true) runs on it; key(owner) must answer exactly the preset keys, an
// unknown owner has none, and addKey / removeKey work on the migrated items.
// param 0: era (0: v in [0.15.4, 0.17.0), 1: [0.17.0, 0.19.0), 2: [0.19.0, current)); param 1: notary flag
// (era 0 only; 0 absent, 1 false, 2 true without ballots, 3 true with a stale ballot, 4 true with a pending one).
func VerifC16MigrateNeoFSID() {
	era, notary := vParam(0), vParam(1)
	v := vInt("deployedVersion")
	cur := vRepoVersion()
	switch era {
	case 0:
		vAssume(v >= 15004 && v < 17000)
	case 1:
		vAssume(v >= 17000 && v < 19000)
	default:
		vAssume(v >= 19000)
	}
	vAssume(v < cur)
	vPresetDeploy("neofsid")
	o1, o2, o3 := vBytes("o1", 25), vBytes("o2", 25), vBytes("o3", 25)
	k1, k2, k3 := vBytes("k1", 33), vBytes("k2", 33), vBytes("k3", 33)
	vAssume(!vEq(o1, o2) && !vEq(o3, o1) && !vEq(o3, o2) && !vEq(k1, k2))
	vPreset("neofsid", append(append([]byte{ownerKeysPrefix}, o1...), k1...), []byte{1})
	vPreset("neofsid", append(append([]byte{ownerKeysPrefix}, o1...), k2...), []byte{1})
	vPreset("neofsid", append(append([]byte{ownerKeysPrefix}, o2...), k3...), []byte{1})
	pending := false
	if era <= 1 {
		vPreset("neofsid", []byte("netmapScriptHash"), vAcct("netmap-placeholder"))
	}
	if era == 0 {
		vPreset("neofsid", []byte("containerScriptHash"), vAcct("container-placeholder"))
		pending = presetNotary("neofsid", notary)
	}
	before := vStorageCount("neofsid")
	done, _ := vUpdateFromPreset("neofsid", v)
	vAssert(done == !pending, "C16/legacy-neofsid-upgrade-completes-unless-a-vote-is-pending")
	if pending {
		vCoverIf(!done, "pending-ballot-refuses-the-upgrade")
		vAssert(vStorageCount("neofsid") == before, "C16/refused-update-changes-nothing")
		return
	}
	vRequire(done, "legacy-neofsid-upgraded")
	if !done {
		return
	}
	_, ver := vRead("neofsid", "version")
	vAssert(ver.(int) == cur, "C16/contract-reports-the-repository-version")
	g1, g2, g3 := keysOf(o1), keysOf(o2), keysOf(o3)
	vAssert(len(g1) == 2 && has(g1, k1) && has(g1, k2), "C16/migration-preserves-the-keys-of-every-owner")
	vAssert(len(g2) == 1 && has(g2, k3), "C16/migration-preserves-the-keys-of-every-owner")
	vAssert(len(g3) == 0, "C16/migration-invents-no-key")
	// the migrated bindings are ordinary ones
	k4 := vBytes("k4", 33)
	vAssume(!vEq(k4, k3))
	vAssert(idOp("addKey", true, o2, k4), "C16/migrated-bindings-are-usable")
	vAssert(idOp("removeKey", true, o1, k1), "C16/migrated-bindings-are-usable")
	g1, g2 = keysOf(o1), keysOf(o2)
	vAssert(len(g1) == 1 && has(g1, k2) && len(g2) == 2 && has(g2, k3) && has(g2, k4), "C16/migrated-bindings-are-usable")
}
