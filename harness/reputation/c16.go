package reputation

import "github.com/nspcc-dev/neofs-contract/common"

func presetNotary(contract string, notary int) (pending bool) {
	switch notary {
	case 1:
		vPreset(contract, []byte("notary"), false)
	case 2:
		vPreset(contract, []byte("notary"), true)
		vPreset(contract, []byte("ballots"), vSerialize([]common.Ballot{}))
	case 3:
		vPreset(contract, []byte("notary"), true)
		vPreset(contract, []byte("ballots"), vSerialize([]common.Ballot{{ID: []byte("id"), Voters: nil, Height: -100000}}))
	case 4:
		vPreset(contract, []byte("notary"), true)
		vPreset(contract, []byte("ballots"), vSerialize([]common.Ballot{{ID: []byte("id"), Voters: nil, Height: 1 << 30}}))
		pending = true
	}
	return pending
}

// C16, Reputation storage of an older release preset raw: one peer with two values for an epoch, another
// peer with one value for another epoch (epochs 1..127 symbolic, peers and values symbolic), the 'notary'
// flag of releases before 0.17.0. After the working tree's _deploy(data||v, true): get / getByID /
// listByEpoch answer exactly the preset values and a further put is appended to them.
// param 0: era (0: v in [0.15.4, 0.17.0), 1: [0.17.0, current)); param 1: notary flag as in the other harnesses.
func VerifC16MigrateReputation() {
	era, notary := vParam(0), vParam(1)
	v := vInt("deployedVersion")
	cur := vRepoVersion()
	if era == 0 {
		vAssume(v >= 15004 && v < 17000)
	} else {
		vAssume(v >= 17000)
	}
	vAssume(v < cur)
	vPresetDeploy("reputation")
	e1, e2 := vInt("e1"), vInt("e2")
	vAssume(e1 >= 1 && e1 <= 127 && e2 >= 1 && e2 <= 127 && e1 != e2)
	p1, p2 := vBytes("peer1", 33), vBytes("peer2", 33)
	v1, v1b, v2 := vBytes("val1", 3), vBytes("val1b", 3), vBytes("val2", 3)
	id1, id2 := append(enc(e1), p1...), append(enc(e2), p2...)
	vPreset("reputation", getReputationKey(reputationCountPrefix, id1), 2)
	vPreset("reputation", append(getReputationKey(reputationValuePrefix, id1), 1), v1)
	vPreset("reputation", append(getReputationKey(reputationValuePrefix, id1), 2), v1b)
	vPreset("reputation", getReputationKey(reputationCountPrefix, id2), 1)
	vPreset("reputation", append(getReputationKey(reputationValuePrefix, id2), 1), v2)
	pending := false
	if era == 0 {
		pending = presetNotary("reputation", notary)
	}
	before := vStorageCount("reputation")
	done, _ := vUpdateFromPreset("reputation", v)
	vAssert(done == !pending, "C16/legacy-reputation-upgrade-completes-unless-a-vote-is-pending")
	if pending {
		vCoverIf(!done, "pending-ballot-refuses-the-upgrade")
		vAssert(vStorageCount("reputation") == before, "C16/refused-update-changes-nothing")
		return
	}
	vRequire(done, "legacy-reputation-upgraded")
	if !done {
		return
	}
	_, ver := vRead("reputation", "version")
	vAssert(ver.(int) == cur, "C16/contract-reports-the-repository-version")
	_, r := vRead("reputation", "get", e1, p1)
	g1 := r.([][]byte)
	vAssert(len(g1) == 2 && vEq(g1[0], v1) && vEq(g1[1], v1b), "C16/migration-preserves-reputation-values")
	_, r = vRead("reputation", "getByID", id2)
	g2 := r.([][]byte)
	vAssert(len(g2) == 1 && vEq(g2[0], v2), "C16/migration-preserves-reputation-values")
	_, r = vRead("reputation", "listByEpoch", e1)
	l1 := r.([][]byte)
	vAssert(len(l1) == 1 && vEq(l1[0], id1), "C16/migration-preserves-the-epoch-index")
	_, r = vRead("reputation", "get", e2, p1)
	vAssert(len(r.([][]byte)) == 0 || vEq(p1, p2), "C16/migration-invents-no-value")
	// a further put for a migrated id is appended after the migrated values
	v3 := vBytes("val3", 3)
	vAssert(putRep(e1, p1, v3), "C16/migrated-values-are-usable")
	_, r = vRead("reputation", "get", e1, p1)
	g1 = r.([][]byte)
	vAssert(len(g1) == 3 && vEq(g1[0], v1) && vEq(g1[1], v1b) && vEq(g1[2], v3), "C16/migrated-values-are-usable")
}
