package reputation

func enc(e int) []byte {
	var buf any = e
	return buf.([]byte)
}

func hasPrefix(s, p []byte) bool {
	if len(p) > len(s) {
		return false
	}
	return vEq(s[:len(p)], p)
}

func contains(list [][]byte, x []byte) bool {
	found := false
	for _, it := range list {
		if vEq(it, x) {
			found = true
		}
	}
	return found
}

func putRep(e int, peer, val []byte) bool {
	vSign(vAlphabetAcct(), true)
	ok, _ := vInvoke("reputation", "put", e, peer, val)
	return ok
}

// C20 reputation: two puts with symbolic epochs (params: encoding length classes), peers and values; then
// listByEpoch / get / getByID with a symbolic query epoch.
func VerifC20Reputation() {
	vDeploy("reputation", false)
	e1, e2, q := vInt("e1"), vInt("e2"), vInt("q")
	// params: byte-length class of the encodings of e1, e2, q (0: zero, 1: 1..127, 2: 128..32767, 3: ..8388607, 4: ..2^31-1)
	vAssume(inClass(e1, vParam(0)) && inClass(e2, vParam(1)) && inClass(q, vParam(2)))
	p1, p2 := vBytes("peer1", 33), vBytes("peer2", 33)
	v1, v2 := vBytes("val1", 3), vBytes("val2", 3)
	vAssert(!putRepStranger(e1, p1, v1), "C20/reputation-put-needs-alphabet")
	vAssume(putRep(e1, p1, v1))
	vAssume(putRep(e2, p2, v2))
	id1, id2 := append(enc(e1), p1...), append(enc(e2), p2...)

	_, r := vRead("reputation", "listByEpoch", q)
	ids := r.([][]byte)
	// everything put for epoch q is listed
	vAssert(e1 != q || contains(ids, id1), "C20/reputation-listByEpoch-returns-what-was-put")
	vAssert(e2 != q || contains(ids, id2), "C20/reputation-listByEpoch-returns-what-was-put")
	if e1 == q && e2 == q && !vEq(p1, p2) {
		vCover("two-entries-of-the-queried-epoch")
	}
	// nothing else is listed
	for _, id := range ids {
		vAssert(vEq(id, id1) || vEq(id, id2), "C20/reputation-listByEpoch-lists-only-stored-ids")
	}
	qb := enc(q)
	for k := 0; k < 2; k++ {
		e, id := e1, id1
		if k == 1 {
			e, id = e2, id2
		}
		if e != q {
			// known finding D7: the minimal little-endian encoding of the queried epoch is a proper prefix of
			// the stored epoch||peer bytes, so the prefix search returns an entry of another epoch
			if hasPrefix(id, qb) {
				vKnown(!contains(ids, id), "C20/KF-D7-reputation-listByEpoch-prefix")
			} else {
				vAssert(!contains(ids, id), "C20/reputation-listByEpoch-only-the-queried-epoch")
			}
		}
	}

	// get(q, peer1): the values put under (q, peer1), in order
	_, g := vRead("reputation", "get", q, p1)
	vals := g.([][]byte)
	idq := append(enc(q), p1...)
	n := 0
	if e1 == q {
		n++
	}
	if e2 == q && vEq(p1, p2) {
		n++
	}
	// known finding D7, get/getByID variant: the stored keys are id||counter without a separator, so the prefix
	// search for idq also matches another id that extends idq, and an id that idq extends (its counter bytes
	// continue the pattern)
	otherPrefix := (!vEq(id1, idq) && (hasPrefix(id1, idq) || hasPrefix(idq, id1))) || (!vEq(id2, idq) && (hasPrefix(id2, idq) || hasPrefix(idq, id2)))
	if otherPrefix {
		vKnown(len(vals) == n, "C20/KF-D7-reputation-get-prefix")
	} else {
		vAssert(len(vals) == n, "C20/reputation-get-returns-exactly-what-was-put")
		if n == 2 {
			vCover("two-values-under-one-id")
			vAssert(vEq(vals[0], v1) && vEq(vals[1], v2), "C20/reputation-get-returns-exactly-what-was-put")
		}
		if n == 1 && e1 == q {
			vAssert(vEq(vals[0], v1), "C20/reputation-get-returns-exactly-what-was-put")
		}
	}
}

func putRepStranger(e int, peer, val []byte) bool {
	vSign(vAcct("stranger"), true)
	ok, _ := vInvoke("reputation", "put", e, peer, val)
	return ok
}

func inClass(e, c int) bool {
	switch c {
	case 0:
		return e == 0
	case 1:
		return e >= 1 && e <= 127
	case 2:
		return e >= 128 && e <= 32767
	case 3:
		return e >= 32768 && e <= 8388607
	}
	return e >= 8388608 && e <= 2147483647
}
