package nns

// C11: NNS authorisation. Params: history variant (0: a.com owned by o1 with admin a1; 1: then transferred to
// o2, which clears the admin), the method under test, the committee size. The signer set is symbolic.
func VerifC11Authorisation() {
	variant, method := vParam(0), vParam(1)
	vCommittee(vParam(2))
	vDeploy("nns", []any{[]any{"com", "ops@nspcc.io"}})
	o1, o2, o3, a1, adm2 := vAcct("o1"), vAcct("o2"), vAcct("o3"), vAcct("a1"), vAcct("adm2")
	vSign(o1, true)
	ok, r := vInvoke("nns", "register", "a.com", o1, "e@nspcc.io", 1, 2, 100000, 3)
	vAssume(ok && r.(bool))
	vSign(o1, true)
	ok, _ = vInvoke("nns", "addRecord", "a.com", typeTXT, "first")
	vAssume(ok)
	vSign(o1, true)
	vSign(a1, true)
	ok, _ = vInvoke("nns", "setAdmin", "a.com", a1)
	vAssume(ok)
	owner, hasAdmin := o1, true
	if variant == 1 {
		vSign(o1, true)
		ok, r = vInvoke("nns", "transfer", o2, "a.com", nil)
		vAssume(ok && r.(bool))
		owner, hasAdmin = o2, false
	}
	if variant == 2 { // the name, with its appointed admin, EXPIRES and is registered again by o2: the new
		// life of the name starts without an admin, whatever the previous owner had appointed
		vAdvanceTime(100001 * 1000)
		vSign(o2, true)
		ok, r = vInvoke("nns", "register", "a.com", o2, "e2@nspcc.io", 1, 2, 100000, 3)
		vAssume(ok && r.(bool))
		owner, hasAdmin = o2, false
	}

	if method == 11 { // a third-level name of ANOTHER owner (o3), for the fourth-level registration below
		vSign(owner, true)
		vSign(o3, true)
		ok, r = vInvoke("nns", "register", "x.a.com", o3, "e@nspcc.io", 1, 2, 1000, 3)
		vAssume(ok && r.(bool))
	}

	sO1, sO2, sO3, sA1, sAdm2, sCom := vBool("o1Signs"), vBool("o2Signs"), vBool("o3Signs"), vBool("a1Signs"), vBool("adm2Signs"), vBool("committeeSigns")
	vSign(o1, sO1)
	vSign(o2, sO2)
	vSign(o3, sO3)
	vSign(a1, sA1)
	vSign(adm2, sAdm2)
	vSign(vCommitteeAcct(), sCom)
	vSign(vAcct("stranger"), true)
	sOwner := sO1
	if variant >= 1 {
		sOwner = sO2
	}
	nameAuth := sOwner || (hasAdmin && sA1)

	var done bool
	var res any
	want := false
	switch method {
	case 0:
		done, _ = vInvoke("nns", "addRecord", "a.com", typeTXT, "second")
		want = nameAuth
	case 1:
		done, _ = vInvoke("nns", "setRecord", "a.com", typeTXT, 0, "replaced")
		want = nameAuth
	case 2:
		done, _ = vInvoke("nns", "deleteRecords", "a.com", typeTXT)
		want = nameAuth
	case 3:
		done, _ = vInvoke("nns", "updateSOA", "a.com", "new@nspcc.io", 5, 6, 7, 8)
		want = nameAuth
	case 4:
		done, _ = vInvoke("nns", "renew", "a.com", 1)
		want = nameAuth
	case 5:
		done, _ = vInvoke("nns", "setAdmin", "a.com", adm2)
		want = sOwner && sAdm2
	case 6:
		done, res = vInvoke("nns", "transfer", o3, "a.com", nil)
		vAssert(done, "C11/transfer-answers")
		done = done && res.(bool)
		want = sOwner
	case 7:
		done, res = vInvoke("nns", "register", "x.a.com", o3, "e@nspcc.io", 1, 2, 1000, 3)
		done = done && res.(bool)
		want = nameAuth && sO3
	case 8:
		done, res = vInvoke("nns", "register", "new.com", o3, "e@nspcc.io", 1, 2, 1000, 3)
		done = done && res.(bool)
		want = sO3
	case 9:
		done, _ = vInvoke("nns", "registerTLD", "org", "e@nspcc.io", 1, 2, 1000, 3)
		want = sCom
	case 10:
		done, _ = vInvoke("nns", "setPrice", 12345)
		want = sCom
	case 11: // fourth level: the authority is that of the DIRECTLY enclosing name x.a.com (owner o3, no admin),
		// not of the zone a.com, plus the new owner's own witness
		done, res = vInvoke("nns", "register", "y.x.a.com", adm2, "e@nspcc.io", 1, 2, 1000, 3)
		done = done && res.(bool)
		want = sO3 && sAdm2
	}
	vAssert(done == want, "C11/method-takes-effect-exactly-with-the-documented-authority")
	vRequire(done, "authorised-call-succeeded")
	vCoverIf(!done, "unauthorised-call-refused")
	if !done {
		vAssert(!vEffects(), "C11/unauthorised-attempt-leaves-the-state-unchanged")
	}
	// the observable state follows
	_, ow := vRead("nns", "ownerOf", "a.com")
	if method == 6 && done {
		vAssert(vEq(ow.([]byte), o3), "C11/transfer-moves-the-name-to-the-receiver")
	} else {
		vAssert(vEq(ow.([]byte), owner), "C11/owner-changes-only-by-an-authorised-transfer")
	}
	_, rr := vRead("nns", "getRecords", "a.com", typeTXT)
	recs := rr.([]string)
	switch {
	case method == 0 && done:
		vAssert(len(recs) == 2, "C11/records-change-only-by-authorised-calls")
	case method == 1 && done:
		vAssert(len(recs) == 1 && recs[0] == "replaced", "C11/records-change-only-by-authorised-calls")
	case method == 2 && done:
		vAssert(len(recs) == 0, "C11/records-change-only-by-authorised-calls")
	default:
		vAssert(len(recs) == 1 && recs[0] == "first", "C11/records-change-only-by-authorised-calls")
	}
}

// C11 with a name whose label is ALSO the name of a registered TLD (the layout of the FS chain, where the TLD
// "container" coexists with the contract name container.neofs): TLDs com and zone, o1 owns zone.com and com.zone.
// A third-level name under either can be registered only with the witness of the owner of the directly
// enclosing name, whatever other names and roots exist; a refused attempt changes nothing.
func VerifC11LabelIsTLD() {
	vDeploy("nns", []any{[]any{"com", "ops@nspcc.io"}, []any{"zone", "ops@nspcc.io"}})
	o1, o3 := vAcct("o1"), vAcct("o3")
	parent := "zone.com"
	if vParam(0) == 1 {
		parent = "com.zone"
	}
	vSign(o1, true)
	ok, r := vInvoke("nns", "register", parent, o1, "e@nspcc.io", 1, 2, 100000, 3)
	vAssume(ok && r.(bool))
	sO1, sO3 := vBool("o1Signs"), vBool("o3Signs")
	forO1 := vBool("registeredForTheParentOwner")
	newOwner := o3
	if forO1 {
		newOwner = o1
	}
	vSign(o1, sO1)
	vSign(o3, sO3)
	vSign(vAcct("stranger"), true)
	done, res := vInvoke("nns", "register", "x."+parent, newOwner, "e@nspcc.io", 1, 2, 1000, 3)
	took := done && res.(bool)
	// the parent's owner must witness; so must the account the name is registered for
	want := sO1 && (forO1 || sO3)
	vAssert(took == want, "C11/method-takes-effect-exactly-with-the-documented-authority")
	vRequire(took, "sub-name-registered")
	if !took {
		vCoverIf(sO3 && !sO1, "stranger-refused-under-a-name-whose-label-is-a-TLD")
		vAssert(!vEffects(), "C11/unauthorised-attempt-leaves-the-state-unchanged")
		okA, av := vRead("nns", "isAvailable", "x."+parent)
		vAssert(okA && av.(bool), "C11/unauthorised-attempt-leaves-the-state-unchanged")
	}
}
