package nns

// Reference recognisers for C18, written from the property text (not from the contract code).
// Plain Go over byte strings, no library calls, so that the engine can execute them symbolically.

func isLower(c byte) bool { return c >= 'a' && c <= 'z' }
func isDigit(c byte) bool { return c >= '0' && c <= '9' }

// RefName: 3..255 bytes, dot-separated labels of 1..63 [a-z0-9] with inner hyphens allowed,
// last label at most 16 bytes and starting with a letter.
func RefName(s string) bool {
	n := len(s)
	if n < 3 || n > 255 {
		return false
	}
	ok := true
	labelStart := 0
	for i := 0; i <= n; i++ {
		if i == n || s[i] == '.' {
			l := i - labelStart
			last := i == n
			max := 63
			if last {
				max = 16
			}
			if l < 1 || l > max {
				ok = false
			} else {
				first, end := s[labelStart], s[i-1]
				if last {
					if !isLower(first) {
						ok = false
					}
				} else if !isLower(first) && !isDigit(first) {
					ok = false
				}
				if !isLower(end) && !isDigit(end) {
					ok = false
				}
			}
			labelStart = i + 1
		} else {
			c := s[i]
			if !isLower(c) && !isDigit(c) && c != '-' {
				ok = false
			}
		}
	}
	return ok
}

// RefIPv4: canonical dotted quad (four decimal groups 0..255, no sign, no leading zeros) that is a
// public unicast address in the contract's documented sense.
func RefIPv4(s string) bool {
	n := len(s)
	if n < 7 || n > 15 {
		return false
	}
	var oct [4]int
	g, val, digits := 0, 0, 0
	leadZero := false
	for i := 0; i <= n; i++ {
		if i == n || s[i] == '.' {
			if digits == 0 || digits > 3 || val > 255 || (leadZero && digits > 1) {
				return false
			}
			if g > 3 {
				return false
			}
			oct[g] = val
			g++
			val, digits, leadZero = 0, 0, false
			continue
		}
		c := s[i]
		if !isDigit(c) {
			return false
		}
		if digits == 0 && c == '0' {
			leadZero = true
		}
		val = val*10 + int(c-'0')
		digits++
		if digits > 3 {
			return false
		}
	}
	if g != 4 {
		return false
	}
	a, b, d := oct[0], oct[1], oct[3]
	if a == 0 || a == 10 || a == 127 || a >= 224 {
		return false
	}
	if (a == 169 && b == 254) || (a == 172 && b >= 16 && b <= 31) || (a == 192 && b == 168) {
		return false
	}
	if d == 0 || d == 255 {
		return false
	}
	return true
}

func hexVal(c byte) int {
	switch {
	case c >= '0' && c <= '9':
		return int(c - '0')
	case c >= 'a' && c <= 'f':
		return int(c-'a') + 10
	case c >= 'A' && c <= 'F':
		return int(c-'A') + 10
	}
	return -1
}

// RefIPv6sp: same language as RefIPv6, written as a single left-to-right pass whose loop counter never
// depends on the data, so that the symbolic executor can merge all paths into one formula.
func RefIPv6sp(s string) bool {
	n := len(s)
	if n < 2 || n > 39 {
		return false
	}
	ok := true
	g0, g1 := 0, 0 // first two explicit groups
	ng := 0        // completed groups
	gap := -1      // group index at which "::" stands
	v, d := 0, 0
	last := 0 // 0 start, 1 hex digit, 2 single colon after a group, 3 "::" just completed, 4 leading single colon
	for i := 0; i <= n; i++ {
		end := i == n
		colon := !end && s[i] == ':'
		if !end && !colon {
			h := hexVal(s[i])
			if h < 0 {
				ok = false
				h = 0
			}
			if d == 4 || last == 4 {
				ok = false
			}
			v = v*16 + h
			d++
			last = 1
		} else {
			if last == 1 { // close the current group
				if ng == 0 {
					g0 = v
				}
				if ng == 1 {
					g1 = v
				}
				ng++
				v, d = 0, 0
				if colon {
					last = 2
				}
			} else if colon {
				if last == 2 || last == 4 {
					if gap >= 0 {
						ok = false
					}
					gap = ng
					last = 3
				} else if last == 0 {
					last = 4
				} else { // last == 3: ":::"
					ok = false
				}
			} else { // end of string right after a colon
				if last == 2 || last == 4 {
					ok = false
				}
			}
		}
	}
	if gap < 0 {
		if ng != 8 {
			ok = false
		}
	} else if ng > 7 {
		ok = false
	}
	if ng > 8 {
		ok = false
	}
	f0, f1 := g0, g1
	if gap == 0 {
		f0 = 0
	}
	if gap == 0 || gap == 1 {
		f1 = 0
	}
	if f0 < 0x2000 || f0 > 0x3fff || f0 == 0x2002 || f0 == 0x3ffe {
		ok = false
	}
	if f0 == 0x2001 && (f1 < 0x200 || f1 == 0xdb8) {
		ok = false
	}
	return ok
}
