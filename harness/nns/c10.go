package nns

const yearMs = 365 * 24 * 3600 * 1000

var c10Names = []string{"a.com", "b.com", "x.a.com"}

// reference model: per pool name the recorded owner (0 = never registered, 1..3), expiration and admin flag
var (
	nOwner [3]int
	nExp   [3]int
	nAdmin [3]bool
	tldExp int
)

func ownerAcct(i int) []byte {
	if i == 1 {
		return vAcct("o1")
	}
	return vAcct("o2")
}

// alive: the name is registered and unexpired at time t, and so is every enclosing name up to the TLD.
func alive(i, t int) bool {
	if nOwner[i] == 0 || t >= nExp[i] || t >= tldExp {
		return false
	}
	if i == 2 {
		return nOwner[0] != 0 && t < nExp[0]
	}
	return true
}

func nameOf(i int) string {
	if i == 0 {
		return c10Names[0]
	}
	if i == 1 {
		return c10Names[1]
	}
	return c10Names[2]
}

// C10: NNS lifecycle. Params: the consecutive steps as 10*kind+name (kinds: 0 register, 1 transfer, 2 renew,
// 3 time passes; names: 0 a.com, 1 b.com, 2 x.a.com; 99 ends the list); signers, receivers, lifetimes, years
// and time spans are symbolic.
func VerifC10Lifecycle() {
	// param 5 = 1: the pool names are com.com, b.com, x.com.com — a name whose leftmost label is also the name
	// of a registered TLD is an ordinary name (ten-year renewal cap, owner, expiry like any other)
	c10Names[0], c10Names[2] = "a.com", "x.a.com"
	if vParam(5) == 1 {
		c10Names[0], c10Names[2] = "com.com", "x.com.com"
	}
	vDeploy("nns", []any{[]any{"com", "ops@nspcc.io"}})
	tldExp = vTime() + 10*yearMs
	for i := 0; i < 3; i++ {
		nOwner[i], nExp[i], nAdmin[i] = 0, 0, false
	}
	supply := 0
	tags := []string{"A", "B", "C", "D", "E"}
	for s := 0; s < 5; s++ {
		if vParam(s) == 99 {
			break
		}
		op, ni := vParam(s)/10, vParam(s)%10
		who, to := 1, 1
		if vBool("signerIsO2" + tags[s]) {
			who = 2
		}
		if vBool("receiverIsO2" + tags[s]) {
			to = 2
		}
		name := nameOf(ni)
		switch op {
		case 0: // register(name, owner = receiver) signed by signer
			life := vInt("lifetimeSeconds" + tags[s])
			vAssume(life >= 1 && life <= 400000000)
			vSign(ownerAcct(who), true)
			ok, r := vInvoke("nns", "register", name, ownerAcct(to), "e@nspcc.io", 1, 2, life, 3)
			t := vTime()
			parentOK := t < tldExp
			if ni == 2 { // third level: the enclosing name must be alive and its owner must sign
				parentOK = parentOK && nOwner[0] != 0 && t < nExp[0] && who == nOwner[0]
			}
			vAssert(ok == (parentOK && who == to), "C10/register-needs-a-live-parent-chain-and-the-owner-witness")
			if ok {
				free := nOwner[ni] == 0 || t >= nExp[ni]
				vAssert(r.(bool) == free, "C10/registered-name-is-unavailable-until-its-expiration")
				evs := vEvents("nns", "Transfer")
				if r.(bool) {
					vCover("registered")
					if nOwner[ni] == 0 {
						supply++
						vAssert(len(evs) == 1 && evs[0][0] == nil && vEq(evs[0][1].([]byte), ownerAcct(to)) && vEq(evs[0][3].([]byte), []byte(name)), "C10/one-Transfer-notification-per-ownership-change")
					} else {
						vCover("expired-name-taken-over")
						vAssert(len(evs) == 1 && vEq(evs[0][0].([]byte), ownerAcct(nOwner[ni])) && vEq(evs[0][1].([]byte), ownerAcct(to)), "C10/one-Transfer-notification-per-ownership-change")
					}
					nOwner[ni], nExp[ni], nAdmin[ni] = to, t+life*1000, false
				} else {
					vAssert(len(evs) == 0, "C10/refused-registration-announces-nothing")
				}
			}
		case 1: // transfer(to, name) signed by signer
			vSign(ownerAcct(who), true)
			ok, r := vInvoke("nns", "transfer", ownerAcct(to), name, nil)
			t := vTime()
			exists := nOwner[ni] != 0 && t < nExp[ni]
			vAssert(ok == exists, "C10/transfer-answers-only-for-unexpired-names")
			if ok {
				vAssert(r.(bool) == (who == nOwner[ni]), "C10/transfer-needs-the-owner-witness")
				evs := vEvents("nns", "Transfer")
				if r.(bool) {
					vCover("transferred")
					vAssert(len(evs) == 1 && vEq(evs[0][0].([]byte), ownerAcct(nOwner[ni])) && vEq(evs[0][1].([]byte), ownerAcct(to)) && evs[0][2].(int) == 1, "C10/one-Transfer-notification-per-ownership-change")
					if to != nOwner[ni] {
						nOwner[ni], nAdmin[ni] = to, false
					}
				} else {
					vAssert(len(evs) == 0, "C10/refused-transfer-announces-nothing")
				}
			}
		case 2: // renew(name, years) signed by signer
			years := vInt("years" + tags[s])
			vAssume(years >= 0 && years <= 11)
			vSign(ownerAcct(who), true)
			ok, r := vInvoke("nns", "renew", name, years)
			t := vTime()
			want := years >= 1 && years <= 10 && alive(ni, t) && who == nOwner[ni] && nExp[ni]+years*yearMs <= t+10*yearMs
			vAssert(ok == want, "C10/renew-needs-the-owner-a-live-name-and-stays-within-ten-years")
			if ok {
				vCover("renewed")
				nExp[ni] += years * yearMs
				vAssert(r.(int) == nExp[ni], "C10/renew-adds-whole-years")
			}
		case 3: // time passes
			dt := vInt("milliseconds" + tags[s])
			vAssume(dt >= 1 && dt <= 3000000)
			vAdvanceTime(dt)
		}

		// observable state at read time
		tr := vTime() + 1
		_, ts := vRead("nns", "totalSupply")
		vAssert(ts.(int) == supply, "C10/totalSupply-counts-the-names-ever-registered")
		sum := 0
		for o := 1; o <= 2; o++ {
			_, b := vRead("nns", "balanceOf", ownerAcct(o))
			held := 0
			for i := 0; i < 3; i++ {
				if nOwner[i] == o {
					held++
				}
			}
			vAssert(b.(int) == held, "C10/balanceOf-counts-the-names-recorded-for-the-owner")
			sum += b.(int)
			_, tk := vRead("nns", "tokensOf", ownerAcct(o))
			vAssert(len(tk.([][]byte)) == held, "C10/tokensOf-lists-exactly-the-names-recorded-for-the-owner")
			// the same observation under C11 (this job is also registered there): an account that lost a name,
			// by transfer or by somebody else's re-registration after expiry, keeps no trace of holding it
			vAssert(len(tk.([][]byte)) == held && b.(int) == held, "C11/a-former-owner-holds-nothing-of-the-name")
		}
		vAssert(sum == supply, "C10/supply-is-the-sum-of-balances")
		q := ni // the name the step was about
		qn := nameOf(q)
		_, av := vRead("nns", "isAvailable", qn)
		vAssert(av.(bool) == !alive(q, tr), "C10/available-exactly-when-not-registered-or-expired")
		okO, ow := vRead("nns", "ownerOf", qn)
		vAssert(okO == alive(q, tr), "C10/ownerOf-answers-only-with-an-unexpired-chain")
		if okO {
			vAssert(vEq(ow.([]byte), ownerAcct(nOwner[q])), "C10/ownerOf-is-the-recorded-owner")
		}
		if op == 3 {
			vCoverIf(nOwner[q] != 0 && tr == nExp[q], "queried-exactly-at-expiration")
			vCoverIf(nOwner[q] != 0 && tr == nExp[q]-1, "queried-one-millisecond-before-expiration")
		}
	}
}

// C10 under an expiring TLD: the committee registers the TLD org with a symbolic lifetime, o1 registers
// a.org with another symbolic lifetime and adds a record, a symbolic time span passes. ownerOf, properties
// and the record getters answer exactly while the WHOLE chain (the name and its TLD) is unexpired. The
// deployment's own TLD lives ten years, which no other history of this property reaches.
func VerifC10ExpiredTLD() {
	vDeploy("nns", []any{[]any{"com", "ops@nspcc.io"}})
	o1 := vAcct("o1")
	tldLife, life := vInt("tldLifetimeSeconds"), vInt("nameLifetimeSeconds")
	vAssume(tldLife >= 1 && tldLife <= 1000 && life >= 1 && life <= 2000)
	vSign(vCommitteeAcct(), true)
	ok, _ := vInvoke("nns", "registerTLD", "org", "e@nspcc.io", 1, 2, tldLife, 3)
	vAssume(ok)
	expTLD := vTime() + tldLife*1000
	vSign(o1, true)
	ok, r := vInvoke("nns", "register", "a.org", o1, "e@nspcc.io", 1, 2, life, 3)
	vAssume(ok && r.(bool))
	expName := vTime() + life*1000
	vSign(o1, true)
	ok, _ = vInvoke("nns", "addRecord", "a.org", 16, "data")
	vAssume(ok)
	dt := vInt("milliseconds")
	vAssume(dt >= 1 && dt <= 2100000)
	vAdvanceTime(dt)
	t := vTime() + 1 // the instant of the reads
	live := t < expTLD && t < expName
	okO, ow := vRead("nns", "ownerOf", "a.org")
	okP, _ := vRead("nns", "properties", "a.org")
	vAssert(okO == live && okP == live, "C10/ownerOf-and-properties-answer-only-while-the-whole-chain-is-unexpired")
	if okO {
		vAssert(vEq(ow.([]byte), o1), "C10/ownerOf-names-the-owner")
	}
	okG, _ := vRead("nns", "getRecords", "a.org", 16)
	okR, _ := vRead("nns", "resolve", "a.org", 16)
	okA, _ := vRead("nns", "getAllRecords", "a.org")
	vAssert(okG == live && okR == live && okA == live, "C10/records-answer-only-while-the-whole-chain-is-unexpired")
	// the same under C12 (this harness is also registered there): records become unreachable when the name —
	// or a name enclosing it, the TLD included — expires, through every getter alike
	vAssert(okG == live && okR == live && okA == live, "C12/records-unreachable-exactly-when-the-name-or-its-parent-chain-expired")
	vCoverIf(t >= expTLD && t < expName, "tld-expired-while-the-name-is-alive")
	vCoverIf(t < expTLD && t >= expName, "name-expired-while-the-tld-is-alive")
	vCoverIf(live, "both-alive")
	vCoverIf(t == expTLD && t < expName, "read-exactly-at-the-expiration-of-the-tld")
}
