package nns

import "github.com/nspcc-dev/neofs-contract/contracts/nns/recordtype"

// C16 migration of a legacy NNS storage (releases before 0.18.0): a TLD is an ordinary token with a 20-byte
// owner, counted in the supply, in its owner's balance and in the owner's token index. The layout is the
// one of the recorded testnet dump (contracts/nns/testdata): 0x00 supply, 0x01||owner balance,
// 0x02||owner||key(name) -> name, 0x10 price, 0x20||root -> empty, 0x21||key(name) -> NameState,
// 0x22||key(name)||key(name)||type||id -> RecordState. It is preset raw and the working tree's
// _deploy(data||v, true) runs on it: TLDs become committee-owned, everything else must read as before.
// param 0: 1 = the TLD's owner also owns the second-level name (its balance goes 2 -> 1, not 1 -> 0).
func VerifC16MigrateNNS() {
	sameOwner := vParam(0) == 1
	v := vInt("deployedVersion")
	cur := vRepoVersion()
	vAssume(v >= 15004 && v < 18000 && v < cur)
	vPresetDeploy("nns")

	tldOwner, user := vAcct("tldowner"), vAcct("user")
	if sameOwner {
		user = tldOwner
	}
	const farFuture = 4000000000000 // ms; the block clock is below 2*10^12
	expA := vInt("expirationA")
	vAssume(expA >= 3000000000000 && expA <= farFuture)
	price := vInt("price")
	vAssume(price >= 1 && price <= 1000000000000) // at price 0 every registration faults in BurnGas, before and after any upgrade
	txt := string(vBytes("txt", 3))
	kCom, kA := getTokenKey([]byte("com")), getTokenKey([]byte("a.com"))

	vPreset("nns", []byte{prefixTotalSupply}, 2)
	vPreset("nns", []byte{prefixRegisterPrice}, price)
	vPreset("nns", makeTLDKey("com"), []byte{})
	vPreset("nns", getNameStateKey(kCom), vSerialize(NameState{Owner: tldOwner, Name: "com", Expiration: farFuture}))
	vPreset("nns", getNameStateKey(kA), vSerialize(NameState{Owner: user, Name: "a.com", Expiration: int64(expA)}))
	if sameOwner {
		vPreset("nns", append([]byte{prefixBalance}, tldOwner...), 2)
	} else {
		vPreset("nns", append([]byte{prefixBalance}, tldOwner...), 1)
		vPreset("nns", append([]byte{prefixBalance}, user...), 1)
	}
	vPreset("nns", append(append([]byte{prefixAccountToken}, tldOwner...), kCom...), []byte("com"))
	vPreset("nns", append(append([]byte{prefixAccountToken}, user...), kA...), []byte("a.com"))
	soaCom, soaA := "com ops@nspcc.io 1669804899078 3600 600 315360000 3600", "a.com e@nspcc.io 1669804899078 1 2 100000 3"
	vPreset("nns", getIdRecordKey([]byte("com"), "com", recordtype.SOA, 0), vSerialize(RecordState{Name: "com", Type: recordtype.SOA, Data: soaCom, ID: 0}))
	vPreset("nns", getIdRecordKey([]byte("a.com"), "a.com", recordtype.SOA, 0), vSerialize(RecordState{Name: "a.com", Type: recordtype.SOA, Data: soaA, ID: 0}))
	vPreset("nns", getIdRecordKey([]byte("a.com"), "a.com", recordtype.TXT, 0), vSerialize(RecordState{Name: "a.com", Type: recordtype.TXT, Data: txt, ID: 0}))

	done, _ := vUpdateFromPreset("nns", v)
	vRequire(done, "legacy-nns-upgraded")
	vAssert(done, "C16/legacy-nns-upgrade-completes")
	if !done {
		return
	}
	_, ver := vRead("nns", "version")
	vAssert(ver.(int) == cur, "C16/contract-reports-the-repository-version")

	okO, ow := vRead("nns", "ownerOf", []byte("a.com"))
	_, ts := vRead("nns", "totalSupply")
	_, bu := vRead("nns", "balanceOf", user)
	_, tk := vRead("nns", "tokensOf", user)
	toks := tk.([]any)
	vAssert(okO && vEq(ow.([]byte), user) && ts.(int) == 2 && bu.(int) == 1 && len(toks) == 1 && vEq(toks[0].([]byte), []byte("a.com")),
		"C16/migration-preserves-names-and-owners")
	if !sameOwner {
		_, bt := vRead("nns", "balanceOf", tldOwner)
		_, tt := vRead("nns", "tokensOf", tldOwner)
		vAssert(bt.(int) == 0 && len(tt.([]any)) == 0, "C16/migrated-tld-is-committee-owned")
	}
	okT, _ := vRead("nns", "ownerOf", []byte("com"))
	vAssert(!okT, "C16/migrated-tld-is-committee-owned")

	okR, recs := vRead("nns", "getRecords", "a.com", int(recordtype.TXT))
	okS, soa := vRead("nns", "getRecords", "a.com", int(recordtype.SOA))
	okA, all := vRead("nns", "getAllRecords", "a.com")
	okV, res := vRead("nns", "resolve", "a.com", int(recordtype.TXT))
	vAssert(okR && okS && okA && okV, "C16/migration-preserves-records")
	if okR && okS && okA && okV {
		rl, sl, rv := recs.([]string), soa.([]string), res.([]string)
		vAssert(len(rl) == 1 && rl[0] == txt && len(sl) == 1 && sl[0] == soaA && len(all.([]any)) == 2 && len(rv) == 1 && rv[0] == txt,
			"C16/migration-preserves-records")
	}
	_, rootsV := vRead("nns", "roots")
	_, pr := vRead("nns", "getPrice")
	_, avB := vRead("nns", "isAvailable", "b.com")
	_, avA := vRead("nns", "isAvailable", "a.com")
	vAssert(len(rootsV.([]any)) == 1 && pr.(int) == price && avB.(bool) && !avA.(bool), "C16/migration-preserves-roots-price-and-availability")

	// the TLD is administered by the committee now, not by its former owner (records cannot be added to a
	// TLD by anybody; updateSOA and renew are what its administrator may do)
	vSign(tldOwner, true)
	byOld, _ := vInvoke("nns", "updateSOA", "com", "old@nspcc.io", 1, 2, 3, 4)
	vAssert(!byOld && !vEffects(), "C16/migrated-tld-is-administered-by-the-committee-only")
	vSign(vCommitteeAcct(), true)
	byCommittee, _ := vInvoke("nns", "updateSOA", "com", "new@nspcc.io", 1, 2, 3, 4)
	vAssert(byCommittee && vEffects(), "C16/migrated-tld-is-administered-by-the-committee-only")

	// the migrated zone is usable: the owner adds a record, a newcomer registers a sibling
	vSign(user, true)
	ok, _ := vInvoke("nns", "addRecord", "a.com", int(recordtype.TXT), "second")
	_, recs = vRead("nns", "getRecords", "a.com", int(recordtype.TXT))
	vAssert(ok && len(recs.([]string)) == 2, "C16/migrated-names-are-usable")
	other := vAcct("newcomer")
	vSign(other, true)
	ok, r := vInvoke("nns", "register", "b.com", other, "e@nspcc.io", 1, 2, 100000, 3)
	_, ts = vRead("nns", "totalSupply")
	vAssert(ok && r.(bool) && ts.(int) == 3, "C16/migrated-tld-accepts-registrations")
}
