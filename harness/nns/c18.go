package nns

const (
	typeA     = 1
	typeCNAME = 5
	typeTXT   = 16
	typeAAAA  = 28
)

func noSep(s string, sep byte) bool {
	ok := true
	for i := 0; i < len(s); i++ {
		if s[i] == sep {
			ok = false
		}
	}
	return ok
}

// nnsWithName: NNS with TLD "com" and the name a.com registered by o1 (ten years).
func nnsWithName() []byte {
	vDeploy("nns", []any{[]any{"com", "ops@nspcc.io"}})
	o1 := vAcct("o1")
	vSign(o1, true)
	ok, r := vInvoke("nns", "register", "a.com", o1, "e@nspcc.io", 1, 2, 315360000, 3)
	vAssume(ok && r.(bool))
	return o1
}

// addRecordAccepted: does the owner's addRecord(a.com, typ, data) succeed?
func addRecordAccepted(o1 []byte, typ int, data string) bool {
	vSign(o1, true)
	ok, _ := vInvoke("nns", "addRecord", "a.com", typ, data)
	if !ok {
		vAssert(!vEffects(), "C18/rejected-data-changes-nothing")
	} else {
		_, r := vRead("nns", "getRecords", "a.com", typ)
		recs := r.([]string)
		vAssert(len(recs) == 1 && recs[0] == data, "C18/accepted-data-is-stored")
	}
	return ok
}

// group: n symbolic bytes without the separator.
func group(tag string, n int, sep byte) string {
	s := string(vBytes(tag, n))
	vAssume(noSep(s, sep))
	return s
}

// C18 IPv4 by shape: four groups of the given lengths (params), every byte symbolic.
func VerifC18IPv4Shape() {
	o1 := nnsWithName()
	data := group("g1", vParam(0), '.') + "." + group("g2", vParam(1), '.') + "." + group("g3", vParam(2), '.') + "." + group("g4", vParam(3), '.')
	want := RefIPv4(data)
	accepted := addRecordAccepted(o1, typeA, data)
	vCover("checked")
	if vParam(0) >= 1 && vParam(0) <= 3 && vParam(1) >= 1 && vParam(1) <= 3 && vParam(2) >= 1 && vParam(2) <= 3 && vParam(3) >= 1 && vParam(3) <= 3 {
		vRequire(accepted, "accepted")
	}
	vAssert(accepted == want, "C18/A-record-accepts-exactly-canonical-public-unicast-dotted-quads")
}

// C18 IPv4, free form: every byte of a string of length param 0 symbolic (any number of dots anywhere).
func VerifC18IPv4Free() {
	o1 := nnsWithName()
	data := string(vBytes("data", vParam(0)))
	want := RefIPv4(data)
	accepted := addRecordAccepted(o1, typeA, data)
	vCover("checked")
	if vParam(0) >= 7 && vParam(0) <= 15 {
		vCoverIf(want, "valid-address-of-this-length")
	}
	vAssert(accepted == want, "C18/A-record-accepts-exactly-canonical-public-unicast-dotted-quads")
}

// C18 IPv6 by shape: param 0 says whether the shape admits valid addresses; the other params list the group
// lengths; 9 stands for the "::" gap, 8 for a lone colon (leading or trailing), 0 ends the list.
func VerifC18IPv6Shape() {
	o1 := nnsWithName()
	tags := []string{"a", "b", "c", "d", "e", "f", "g", "h", "i"}
	data := ""
	prevGap, first := false, true
	for i := 0; i < 9; i++ {
		p := vParam(i + 1)
		if p == 0 {
			break
		}
		if p == 9 {
			data += "::"
			prevGap = true
			first = false
			continue
		}
		if p == 8 { // a lone colon: an empty fragment at the start or the end of the data
			data += ":"
			prevGap = true
			first = false
			continue
		}
		if !first && !prevGap {
			data += ":"
		}
		data += group(tags[i], p, ':')
		prevGap, first = false, false
	}
	want := RefIPv6sp(data)
	accepted := addRecordAccepted(o1, typeAAAA, data)
	vCover("checked")
	if vParam(0) == 1 {
		vRequire(accepted, "accepted")
		vCoverIf(want, "valid")
	}
	vAssert(accepted == want, "C18/AAAA-record-accepts-exactly-textual-global-unicast-addresses")
}

// C18 IPv6, free form: every byte of a string of length param 0 symbolic.
func VerifC18IPv6Free() {
	o1 := nnsWithName()
	data := string(vBytes("data", vParam(0)))
	want := RefIPv6sp(data)
	accepted := addRecordAccepted(o1, typeAAAA, data)
	vCover("checked")
	vAssert(accepted == want, "C18/AAAA-record-accepts-exactly-textual-global-unicast-addresses")
}

// C18 TXT: any data of at most 255 bytes.
func VerifC18TXT() {
	o1 := nnsWithName()
	n := vParam(0)
	data := string(vBytes("txt", n))
	accepted := addRecordAccepted(o1, typeTXT, data)
	vAssert(accepted == (n <= 255), "C18/TXT-record-accepts-exactly-up-to-255-bytes")
	vCoverIf(accepted == (n <= 255), "txt-decided")
}

// C18 CNAME: the data must be a valid name. Shape: labels of the given lengths (params, 0 ends the list).
func VerifC18CNAMEShape() {
	o1 := nnsWithName()
	data := shapedName()
	want := RefName(data)
	accepted := addRecordAccepted(o1, typeCNAME, data)
	vCover("checked")
	if vParam(0) == 1 {
		vRequire(accepted, "accepted")
	}
	vAssert(accepted == want, "C18/CNAME-record-accepts-exactly-valid-names")
}

func shapedName() string {
	tags := []string{"l0", "l1", "l2", "l3", "l4", "l5"}
	data := ""
	for i := 0; i < 6; i++ {
		p := vParam(i + 1) // param 0 is the "valid names possible" flag
		if p == 0 {
			break
		}
		if i > 0 {
			data += "."
		}
		if p == 99 { // an empty label
			continue
		}
		data += group(tags[i], p, '.')
	}
	return data
}

// C18 names through isAvailable, free form: a fully symbolic string of length param 0 (dots anywhere) on an
// NNS without any TLD: valid single labels are available, valid multi-label names report "TLD not found"
// only after the syntax check, which the harness tells apart by appending a registered TLD instead.
func VerifC18NameFree() {
	vDeploy("nns", []any{[]any{"com", "ops@nspcc.io"}})
	s := string(vBytes("s", vParam(0)))
	name := s + ".com"
	ok, _ := vRead("nns", "isAvailable", name)
	vAssert(ok == RefName(name), "C18/isAvailable-accepts-exactly-valid-names")
	vRequire(ok, "valid-name-of-this-length")
	vCoverIf(!ok, "invalid-name-of-this-length")
}

// C18 names by shape through isAvailable and register: labels of the given lengths + ".com".
func VerifC18NameShape() {
	vDeploy("nns", []any{[]any{"com", "ops@nspcc.io"}})
	o1 := vAcct("o1")
	name := shapedName() + ".com"
	want := RefName(name)
	ok, _ := vRead("nns", "isAvailable", name)
	vAssert(ok == want, "C18/isAvailable-accepts-exactly-valid-names")
	vCover("checked")
	if vParam(2) == 0 { // one label: a second-level name anybody may register
		vSign(o1, true)
		done, _ := vInvoke("nns", "register", name, o1, "e@nspcc.io", 1, 2, 1000, 3)
		vAssert(done == want, "C18/register-accepts-exactly-valid-names")
		if !done {
			vAssert(!vEffects(), "C18/rejected-name-changes-nothing")
		}
		if vParam(0) == 1 {
			vRequire(done, "registered")
		}
	}
}

// C18 TLD syntax through registerTLD by the committee and isAvailable on an NNS without TLDs.
func VerifC18TLD() {
	// param 1 = 1: the NNS already has TLDs, among them hyphenated ones whose proper prefixes are NOT valid
	// labels ("ab-", "c-"): what is a valid name must not depend on which roots are registered
	if vParam(1) == 1 {
		vDeploy("nns", []any{[]any{"com", "ops@nspcc.io"}, []any{"ab-cd", "ops@nspcc.io"}, []any{"c-d", "ops@nspcc.io"}})
	} else {
		vDeploy("nns", []any{})
	}
	s := string(vBytes("tld", vParam(0)))
	vAssume(noSep(s, '.'))
	want := RefName(s)
	if vParam(1) == 1 { // a registered root is a valid name that is not available and cannot be registered again
		vAssume(s != "com" && s != "ab-cd" && s != "c-d")
	}
	ok, _ := vRead("nns", "isAvailable", s)
	vAssert(ok == want, "C18/isAvailable-accepts-exactly-valid-TLDs")
	vSign(vCommitteeAcct(), true)
	done, _ := vInvoke("nns", "registerTLD", s, "e@nspcc.io", 1, 2, 1000, 3)
	vAssert(done == want, "C18/registerTLD-accepts-exactly-valid-TLDs")
	vCover("checked")
	if vParam(0) >= 3 && vParam(0) <= 16 {
		vRequire(done, "registered")
	}
	if vParam(1) == 1 { // the same string as the last label of a second-level name
		okn, _ := vRead("nns", "isAvailable", "x."+s)
		vAssert(!okn || want, "C18/isAvailable-accepts-exactly-valid-names")
	}
}
