package nns

import "github.com/nspcc-dev/neo-go/pkg/interop/native/std"

const typeSOA = 6

func recsOf(name string, typ int) (bool, []string) {
	ok, r := vRead("nns", "getRecords", name, typ)
	if !ok {
		return false, nil
	}
	return true, r.([]string)
}

func asOwner(o []byte, method string, args ...any) bool {
	vSign(o, true)
	ok, _ := vInvoke("nns", method, args...)
	return ok
}

func soaOf(name string, t int) string {
	return name + " e@nspcc.io " + std.Itoa(t, 10) + " 1 2 100000 3"
}

// C12 records: additions (duplicates refused), replacement by index, records of a sub-name stored under the
// enclosing registered name, deletion per type, SOA undeletable and refreshed by every mutation. Record data
// are symbolic 3-byte strings.
func VerifC12Records() {
	vDeploy("nns", []any{[]any{"com", "ops@nspcc.io"}})
	o1 := vAcct("o1")
	vSign(o1, true)
	ok, r := vInvoke("nns", "register", "a.com", o1, "e@nspcc.io", 1, 2, 100000, 3)
	vAssume(ok && r.(bool))
	_, soa := recsOf("a.com", typeSOA)
	vAssert(len(soa) == 1 && soa[0] == soaOf("a.com", vTime()), "C12/registration-writes-the-SOA-record")
	d1, d2, d3, d4 := string(vBytes("d1", 3)), string(vBytes("d2", 3)), string(vBytes("d3", 3)), string(vBytes("d4", 3))

	vAssume(asOwner(o1, "addRecord", "a.com", typeTXT, d1))
	t1 := vTime()
	added2 := asOwner(o1, "addRecord", "a.com", typeTXT, d2)
	vAssert(added2 == (d1 != d2), "C12/duplicate-records-are-refused")
	model := []string{d1}
	last := t1
	if added2 {
		vCover("two-records")
		model = []string{d1, d2}
		last = vTime()
	}
	_, got := recsOf("a.com", typeTXT)
	vAssert(len(got) == len(model) && got[0] == model[0] && (len(got) == 1 || got[1] == model[1]), "C12/getRecords-returns-the-additions-in-order")
	_, soa = recsOf("a.com", typeSOA)
	vAssert(soa[0] == soaOf("a.com", last), "C12/every-mutation-refreshes-the-SOA-serial")

	// replacement by index: an existing id is replaced in place, a missing id is refused
	idx := vInt("setIndex")
	vAssume(idx >= 0 && idx <= 2)
	set := asOwner(o1, "setRecord", "a.com", typeTXT, idx, d3)
	vAssert(set == (idx < len(model)), "C12/setRecord-replaces-only-existing-ids")
	if set {
		vCover("record-replaced")
		if idx == 0 {
			model[0] = d3
		} else {
			model[1] = d3
		}
		last = vTime()
	}
	_, got = recsOf("a.com", typeTXT)
	vAssert(len(got) == len(model) && got[0] == model[0] && (len(got) == 1 || got[1] == model[1]), "C12/setRecord-replaces-by-index")

	// a sub-name that is not registered keeps its records under a.com
	vAssume(asOwner(o1, "addRecord", "s.a.com", typeTXT, d4))
	last = vTime()
	_, sub := recsOf("s.a.com", typeTXT)
	_, got = recsOf("a.com", typeTXT)
	vAssert(len(sub) == 1 && sub[0] == d4 && len(got) == len(model), "C12/records-of-a-sub-name-live-under-the-enclosing-registered-name")
	// the sub-name has its own ordered list: a second value is appended, a duplicate refused
	subAdded := asOwner(o1, "addRecord", "s.a.com", typeTXT, d1)
	vAssert(subAdded == (d1 != d4), "C12/sub-name-records-form-their-own-list")
	if subAdded {
		last = vTime()
	}
	_, sub = recsOf("s.a.com", typeTXT)
	_, got = recsOf("a.com", typeTXT)
	vAssert(sub[0] == d4 && ((subAdded && len(sub) == 2 && sub[1] == d1) || (!subAdded && len(sub) == 1)) && len(got) == len(model), "C12/sub-name-records-form-their-own-list")
	_, all := vRead("nns", "getAllRecords", "a.com")
	vAssert(len(all.([]RecordState)) == 1+len(model), "C12/getAllRecords-returns-every-record-of-the-name")
	_ = sub
	_, soa = recsOf("a.com", typeSOA)
	vAssert(soa[0] == soaOf("a.com", last), "C12/every-mutation-refreshes-the-SOA-serial")
	// a name cannot be registered while the enclosing name holds records for sub-names of it
	vAssume(asOwner(o1, "addRecord", "y.t.a.com", typeTXT, d4))
	vSign(o1, true)
	okr, _ := vInvoke("nns", "register", "t.a.com", o1, "e@nspcc.io", 1, 2, 1000, 3)
	_, avail := vRead("nns", "isAvailable", "t.a.com")
	vAssert(!okr && !avail.(bool), "C12/registration-refused-while-the-parent-holds-records-of-sub-names")

	// deletion empties one type, never SOA
	vAssert(!asOwner(o1, "deleteRecords", "a.com", typeSOA), "C12/SOA-cannot-be-deleted")
	vAssume(asOwner(o1, "deleteRecords", "a.com", typeTXT))
	_, got = recsOf("a.com", typeTXT)
	_, sub = recsOf("s.a.com", typeTXT)
	_, soa = recsOf("a.com", typeSOA)
	vAssert(len(got) == 0 && len(sub) >= 1 && sub[0] == d4 && len(soa) == 1, "C12/deleteRecords-empties-exactly-one-type-of-one-name")
	vAssert(soa[0] == soaOf("a.com", vTime()), "C12/every-mutation-refreshes-the-SOA-serial")
}

// C12 limits: at most 16 records per type (param 0 = how many are added), at most one CNAME.
func VerifC12Limits() {
	n := vParam(0)
	vFixClock()
	vDeploy("nns", []any{[]any{"com", "ops@nspcc.io"}})
	o1 := vAcct("o1")
	vSign(o1, true)
	ok, r := vInvoke("nns", "register", "a.com", o1, "e@nspcc.io", 1, 2, 100000, 3)
	vAssume(ok && r.(bool))
	x := vBytes("x", 1)
	for i := 0; i < n; i++ {
		added := asOwner(o1, "addRecord", "a.com", typeTXT, string([]byte{byte('A' + i), x[0]}))
		vAssert(added == (i < 16), "C12/at-most-16-records-per-type")
	}
	_, got := recsOf("a.com", typeTXT)
	want := n
	if want > 16 {
		want = 16
	}
	vAssert(len(got) == want, "C12/at-most-16-records-per-type")
	vCover("limit-checked")
	vAssume(asOwner(o1, "addRecord", "a.com", typeCNAME, "b.com"))
	vAssert(!asOwner(o1, "addRecord", "a.com", typeCNAME, "c.com"), "C12/at-most-one-CNAME")
}

// C12 resolve: names n0..n4.com, each with one TXT record (symbolic data); CNAME links n0->n1->..->n(param 0);
// param 1 = 1 closes a cycle n1->n0 instead. resolve follows at most two links and fails on longer chains.
func VerifC12Resolve() {
	links, cycle := vParam(0), vParam(1) == 1
	vFixClock()
	vDeploy("nns", []any{[]any{"com", "ops@nspcc.io"}})
	o1 := vAcct("o1")
	names := []string{"n0.com", "n1.com", "n2.com", "n3.com", "n4.com"}
	var data [5]string
	for i := 0; i < 5; i++ {
		vSign(o1, true)
		ok, r := vInvoke("nns", "register", names[i], o1, "e@nspcc.io", 1, 2, 100000, 3)
		vAssume(ok && r.(bool))
		data[i] = string(vBytes("txt"+string([]byte{byte('0' + i)}), 2))
		vAssume(asOwner(o1, "addRecord", names[i], typeTXT, data[i]))
	}
	for i := 0; i < links; i++ {
		vAssume(asOwner(o1, "addRecord", names[i], typeCNAME, names[i+1]))
	}
	if cycle {
		vAssume(asOwner(o1, "addRecord", names[links], typeCNAME, names[0]))
	}
	ok, r := vRead("nns", "resolve", "n0.com", typeTXT)
	okDot, rDot := vRead("nns", "resolve", "n0.com.", typeTXT)
	vAssert(ok == okDot, "C12/resolve-accepts-a-trailing-dot")
	switch {
	case cycle || links >= 4:
		vCover("long-or-cyclic-chain")
		vAssert(!ok, "C12/resolve-fails-on-chains-of-four-or-more-links")
	case links <= 2:
		vCover("short-chain")
		vAssert(ok, "C12/resolve-follows-up-to-two-links")
		got, gotDot := r.([]string), rDot.([]string)
		vAssert(len(got) == links+1 && len(gotDot) == links+1, "C12/resolve-returns-the-records-of-the-name-and-of-the-chain")
		for i := 0; i <= links; i++ {
			vAssert(got[i] == data[i] && gotDot[i] == data[i], "C12/resolve-returns-the-records-of-the-name-and-of-the-chain")
		}
	}
	okC, rc := vRead("nns", "resolve", "n0.com", typeCNAME)
	if links > 0 {
		vAssert(okC && len(rc.([]string)) == 1 && rc.([]string)[0] == "n1.com", "C12/resolve-of-CNAME-returns-the-alias-itself")
	}
}

// C12 expiry: records become unreachable when the name expires.
func VerifC12Expiry() {
	vDeploy("nns", []any{[]any{"com", "ops@nspcc.io"}})
	o1 := vAcct("o1")
	life := vInt("lifetimeSeconds")
	vAssume(life >= 1 && life <= 1000)
	vSign(o1, true)
	ok, r := vInvoke("nns", "register", "a.com", o1, "e@nspcc.io", 1, 2, life, 3)
	vAssume(ok && r.(bool))
	exp := vTime() + life*1000
	vAssume(asOwner(o1, "addRecord", "a.com", typeTXT, "data"))
	dt := vInt("milliseconds")
	vAssume(dt >= 1 && dt <= 1100000)
	vAdvanceTime(dt)
	t := vTime() + 1
	okG, _ := recsOf("a.com", typeTXT)
	okR, _ := vRead("nns", "resolve", "a.com", typeTXT)
	okA, _ := vRead("nns", "getAllRecords", "a.com")
	vAssert(okG == (t < exp) && okR == (t < exp) && okA == (t < exp), "C12/records-are-reachable-exactly-until-the-name-expires")
	vCoverIf(t == exp, "read-exactly-at-expiration")
	vCoverIf(t == exp-1, "read-one-millisecond-before-expiration")
}

// C12 re-registration: b.a.com is registered with a short symbolic lifetime, a symbolic time span passes
// (it may or may not have expired), the owner of a.com optionally adds a record for x.b.a.com (stored under
// b.a.com while that is alive, under a.com once it has expired), then b.a.com is registered again.
// Registration must succeed exactly when isAvailable said so in the same instant: refused while the name is
// alive, and refused while the enclosing name holds a record of one of its sub-names.
func VerifC12ReRegister() {
	vDeploy("nns", []any{[]any{"com", "ops@nspcc.io"}})
	o1 := vAcct("o1")
	vSign(o1, true)
	ok, r := vInvoke("nns", "register", "a.com", o1, "e@nspcc.io", 1, 2, 10000000, 3)
	vAssume(ok && r.(bool))
	life := vInt("lifetimeSeconds")
	vAssume(life >= 1 && life <= 1000)
	vSign(o1, true)
	ok, r = vInvoke("nns", "register", "b.a.com", o1, "e@nspcc.io", 1, 2, life, 3)
	vAssume(ok && r.(bool))
	exp := vTime() + life*1000
	dt := vInt("milliseconds")
	vAssume(dt >= 1 && dt <= 1100000)
	vAdvanceTime(dt)
	withSub := vBool("recordForASubNameAdded")
	underEnclosing := false
	if withSub {
		// added while b.a.com is alive the record belongs to b.a.com itself; only once b.a.com has expired is
		// it stored under a.com (the expiry can fall in the millisecond between this and the next transaction)
		underEnclosing = vTime()+1 >= exp
		vAssume(asOwner(o1, "addRecord", "x.b.a.com", typeTXT, "sub"))
	}
	t := vTime() + 1 // the instant of the read and of the next transaction
	okAv, av := vRead("nns", "isAvailable", "b.a.com")
	vSign(o1, true)
	okReg, rr := vInvoke("nns", "register", "b.a.com", o1, "e@nspcc.io", 1, 2, 1000, 3)
	registered := okReg && rr.(bool)
	vAssert(okAv || !registered, "C12/registration-agrees-with-isAvailable")
	if okAv {
		vAssert(registered == av.(bool), "C12/registration-agrees-with-isAvailable")
	}
	vAssert(!registered || t >= exp, "C12/a-live-name-cannot-be-registered-again")
	vAssert(!(registered && underEnclosing), "C12/registration-refused-while-the-enclosing-name-holds-records-of-sub-names")
	vCoverIf(registered, "expired-name-registered-again")
	vCoverIf(!registered && underEnclosing, "re-registration-refused-for-a-conflicting-record")
	vCoverIf(registered && withSub, "record-added-in-the-last-millisecond-of-the-name-does-not-conflict")
}

// C12 conflicting records: a.com is registered, ONE record is added for a name that is not registered (it is
// stored under a.com), then w.a.com is looked up with isAvailable and registered. A record conflicts with the
// registration of w.a.com exactly if it belongs to a SUB-NAME of w.a.com (its name ends with ".w.a.com").
// param 0 chooses the record's name:
//	0 w.a.com itself (an alias record for the very name: no conflict)
//	1 x.w.a.com (a sub-name: conflict)
//	2 x.w.a.com.y.w.a.com (a sub-name in which ".w.a.com" occurs twice: conflict)
//	3 xw.a.com (a SIBLING whose first label merely ends with "w": no conflict)
//	4 x.b.a.com (a sub-name of another name: no conflict)
func VerifC12Conflict() {
	vDeploy("nns", []any{[]any{"com", "ops@nspcc.io"}})
	o1 := vAcct("o1")
	vSign(o1, true)
	ok, r := vInvoke("nns", "register", "a.com", o1, "e@nspcc.io", 1, 2, 100000, 3)
	vAssume(ok && r.(bool))
	names := []string{"w.a.com", "x.w.a.com", "x.w.a.com.y.w.a.com", "xw.a.com", "x.b.a.com"}
	conflicts := []bool{false, true, true, false, false}
	rec, conflict := names[0], conflicts[0]
	for i := 1; i < 5; i++ {
		if vParam(0) == i {
			rec, conflict = names[i], conflicts[i]
		}
	}
	vAssume(asOwner(o1, "addRecord", rec, typeTXT, string(vBytes("data", 2))))
	okAv, av := vRead("nns", "isAvailable", "w.a.com")
	vSign(o1, true)
	okReg, rr := vInvoke("nns", "register", "w.a.com", o1, "e@nspcc.io", 1, 2, 1000, 3)
	registered := okReg && rr.(bool)
	vAssert(okAv && av.(bool) == !conflict, "C12/isAvailable-is-false-exactly-for-names-whose-sub-names-have-records")
	vAssert(registered == !conflict, "C12/registration-refused-exactly-while-the-enclosing-name-holds-records-of-sub-names")
	if !conflict {
		vRequire(registered, "name-registered-beside-unrelated-records")
	}
	if conflict {
		vCoverIf(!registered, "registration-refused-for-a-conflicting-record")
	}
}

// C12 deep sub-names: a.com registered; records with symbolic data for s.a.com (one label below the domain) and
// for y.t.a.com (TWO labels below: t.a.com is not registered) are kept under a.com and read back through every
// getter: getRecords, getAllRecords, resolve, resolve with a trailing dot. The block clock is fixed (the SOA
// serial is VerifC12Records' subject). D13 was found here.
func VerifC12DeepSubName() {
	vFixClock()
	vDeploy("nns", []any{[]any{"com", "ops@nspcc.io"}})
	o1 := vAcct("o1")
	vSign(o1, true)
	ok, r := vInvoke("nns", "register", "a.com", o1, "e@nspcc.io", 1, 2, 100000, 3)
	vAssume(ok && r.(bool))
	d1, d4 := string(vBytes("d1", 3)), string(vBytes("d4", 3))
	vAssume(asOwner(o1, "addRecord", "a.com", typeTXT, d1))
	vAssume(asOwner(o1, "addRecord", "s.a.com", typeTXT, d4))
	added := asOwner(o1, "addRecord", "y.t.a.com", typeTXT, d4)
	vRequire(added, "record-added-two-labels-below-the-domain")
	vAssume(added)
	_, deep := recsOf("y.t.a.com", typeTXT)
	okRes, res := vRead("nns", "resolve", "y.t.a.com", typeTXT)
	okDot, resDot := vRead("nns", "resolve", "y.t.a.com.", typeTXT)
	vAssert(len(deep) == 1 && deep[0] == d4, "C12/records-of-a-sub-name-live-under-the-enclosing-registered-name")
	vAssert(okRes && len(res.([]string)) == 1 && res.([]string)[0] == d4, "C12/resolve-returns-the-records-of-a-deeper-sub-name")
	vAssert(okDot && len(resDot.([]string)) == 1 && resDot.([]string)[0] == d4, "C12/resolve-returns-the-records-of-a-deeper-sub-name")
	okS, resS := vRead("nns", "resolve", "s.a.com", typeTXT)
	vAssert(okS && len(resS.([]string)) >= 1 && resS.([]string)[0] == d4, "C12/resolve-returns-the-records-of-a-sub-name")
	_, allDeep := vRead("nns", "getAllRecords", "y.t.a.com")
	vAssert(len(allDeep.([]RecordState)) == 1, "C12/getAllRecords-returns-every-record-of-the-name")
	_, own := recsOf("a.com", typeTXT)
	vAssert(len(own) == 1 && own[0] == d1, "C12/records-of-a-sub-name-live-under-the-enclosing-registered-name")
}
