package container

// deployFS: NNS, Netmap, Balance, NeoFSID and Container deployed through their real _deploy (Container
// registers its TLD in NNS and subscribes to Netmap on the way).
func deployFS() {
	vDeploy("nns", []any{[]any{"neofs", "ops@nspcc.io"}})
	vDeploy("netmap", false, nil, nil, nil, []any{})
	vDeploy("balance", false, nil, nil)
	vDeploy("neofsid", false)
	vDeploy("container", false, vContractHash("netmap"), vContractHash("balance"), vContractHash("neofsid"), vContractHash("nns"), "container")
}

func alphaOn(contract, method string, args ...any) bool {
	vSign(vAlphabetAcct(), true)
	ok, _ := vInvoke(contract, method, args...)
	return ok
}

func balanceOf(a []byte) int {
	_, r := vRead("balance", "balanceOf", a)
	return r.(int)
}

// cnrBlob: a V2 container blob of the owner with a version field of verLen bytes; every other byte symbolic.
func cnrBlob(tag string, verLen int, owner []byte) []byte {
	return cnrBlobOf(tag, verLen, owner, vBytes(tag+"_cksum", 4))
}

// cnrBlobOf: the same with a given owner-ID checksum (two containers of ONE owner share all 25 owner bytes).
func cnrBlobOf(tag string, verLen int, owner, cksum []byte) []byte {
	return cnrBlobTail(tag, verLen, owner, cksum, 8)
}

// cnrBlobTail: the same with tail bytes after the owner ID (0: the owner is the last field, the shortest blob
// the contract can take an owner from).
func cnrBlobTail(tag string, verLen int, owner, cksum []byte, tail int) []byte {
	blob := append([]byte{}, vBytes(tag+"_head", 1)...)
	blob = append(blob, byte(verLen))
	blob = append(blob, vBytes(tag+"_ver", verLen+4)...)
	blob = append(blob, 0x35)
	blob = append(blob, owner...)
	blob = append(blob, cksum...)
	if tail == 0 {
		return blob
	}
	return append(blob, vBytes(tag+"_tail", tail)...)
}

func ownerID(blob []byte, verLen int) []byte {
	return blob[2+verLen+4 : 2+verLen+4+25]
}
