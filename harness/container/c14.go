package container

var cid14 = []byte{1, 2, 3, 4, 5, 6, 7, 8, 9, 10, 11, 12, 13, 14, 15, 16, 17, 18, 19, 20, 21, 22, 23, 24, 25, 26, 27, 28, 29, 30, 31, 32}

func alphaC(method string, args ...any) bool {
	vSign(vAlphabetAcct(), true)
	ok, _ := vInvoke("container", method, args...)
	return ok
}

// deployContainerOnly: the roster and signature methods need no other contract.
func deployContainerOnly() {
	vDeploy("nns", []any{[]any{"neofs", "ops@nspcc.io"}})
	vDeploy("netmap", false, nil, nil, nil, []any{})
	vDeploy("balance", false, nil, nil)
	vDeploy("neofsid", false)
	vDeploy("container", false, vContractHash("netmap"), vContractHash("balance"), vContractHash("neofsid"), vContractHash("nns"), "container")
}

func alphaC2(contract, method string, args ...any) bool {
	vSign(vAlphabetAcct(), true)
	ok, _ := vInvoke(contract, method, args...)
	return ok
}

func batch(tag string, n int) []any {
	ks := []any{}
	for i := 0; i < n; i++ {
		ks = append(ks, vBytes(tag+string([]byte{byte('0' + i)}), 33))
	}
	return ks
}

func nodesOf(v int) [][]byte {
	_, r := vRead("container", "nodes", cid14, v)
	return r.([][]byte)
}

func sameKeys(got [][]byte, want []any) bool {
	if len(got) != len(want) {
		return false
	}
	ok := true
	for i := range got {
		if !vEq(got[i], want[i].([]byte)) {
			ok = false
		}
	}
	return ok
}

// C14 roster: batches of symbolic keys (sizes = params) for vectors 0 and 1, commit, second round, empty commit.
func VerifC14Roster() {
	n1, n2, n3 := vParam(0), vParam(1), vParam(2)
	vCommittee(vParam(3)) // committee size: adds and commits need the Alphabet's 2n/3+1 account
	deployContainerOnly()
	a, b, c := batch("a", n1), batch("b", n2), batch("c", n3)
	r0, r1, r2 := vInt("r0"), vInt("r1"), vInt("r2")
	vAssume(r0 >= 0 && r0 <= 255 && r1 >= 0 && r1 <= 255 && r2 >= 0 && r2 <= 255)

	vAssert(!alphaC("addNextEpochNodes", cid14, 1, c), "C14/vector-1-refused-before-vector-0-exists")
	// like the main operation of most other harnesses (DESIGN.md 2.9): the first add and the first commit by the Alphabet are
	// required successes, not assumptions, so a tree on which the Alphabet cannot update the roster is
	// reported instead of making everything below vacuous
	added := alphaC("addNextEpochNodes", cid14, 0, a)
	vRequire(added, "alphabet-adds-to-the-roster")
	vAssume(added)
	vAssume(alphaC("addNextEpochNodes", cid14, 0, b))
	vAssert(len(nodesOf(0)) == 0, "C14/pending-roster-invisible-before-commit")
	if n1+n2 > 0 {
		vAssume(alphaC("addNextEpochNodes", cid14, 1, c))
	}
	committed := alphaC("commitContainerListUpdate", cid14, []any{r0, r1})
	vRequire(committed, "alphabet-commits-the-roster")
	vAssume(committed)
	vCover("first-commit")
	vAssert(sameKeys(nodesOf(0), append(append([]any{}, a...), b...)), "C14/nodes-are-what-was-added-in-submission-order")
	if n1+n2 > 0 {
		vAssert(sameKeys(nodesOf(1), c), "C14/nodes-are-what-was-added-in-submission-order")
	}
	_, rr := vRead("container", "replicasNumbers", cid14)
	reps := rr.([]int)
	vAssert(len(reps) == 2 && reps[0] == r0 && reps[1] == r1, "C14/replicas-are-what-was-committed")

	// second round: only vector 0, one batch; the old roster is replaced, the pending one was emptied
	vAssume(alphaC("addNextEpochNodes", cid14, 0, c))
	vAssume(alphaC("commitContainerListUpdate", cid14, []any{r2}))
	vCover("second-commit")
	vAssert(sameKeys(nodesOf(0), c) && len(nodesOf(1)) == 0, "C14/commit-replaces-the-roster-and-empties-the-pending-one")
	_, rr = vRead("container", "replicasNumbers", cid14)
	reps = rr.([]int)
	vAssert(len(reps) == 1 && reps[0] == r2, "C14/replicas-are-what-was-committed")

	// empty commit clears everything
	vAssume(alphaC("commitContainerListUpdate", cid14, []any{}))
	_, rr = vRead("container", "replicasNumbers", cid14)
	vAssert(len(nodesOf(0)) == 0 && len(rr.([]int)) == 0, "C14/empty-commit-clears-the-roster")
}

// C14 interleaved batches: the params give the vector of each consecutive batch of ONE epoch (9 ends the
// list; a vector may be revisited after a higher one was started), every batch has two symbolic keys. After
// the commit each vector holds exactly its own batches in submission order, whatever was added to the others
// in between.
func VerifC14Interleaved() {
	deployContainerOnly()
	tags := []string{"p", "q", "r", "s", "t", "u"}
	var want [3][]any
	started, epochs := 0, 0
	for i := 0; i < 6; i++ {
		v := vParam(i)
		if v == 9 {
			break
		}
		if v == 8 { // an epoch tick in the middle of the roster update: Netmap tells Container the new epoch
			// (estimation clean-up); the pending roster is none of its business
			epochs++
			vAssume(alphaC2("netmap", "newEpoch", epochs))
			continue
		}
		ks := batch(tags[i], 2)
		vAssume(alphaC("addNextEpochNodes", cid14, v, ks))
		want[v] = append(want[v], ks...)
		if v+1 > started {
			started = v + 1
		}
	}
	reps := []any{}
	for v := 0; v < started; v++ {
		reps = append(reps, 1)
	}
	vAssume(alphaC("commitContainerListUpdate", cid14, reps))
	vCover("interleaved-roster-committed")
	for v := 0; v < started; v++ {
		vAssert(sameKeys(nodesOf(v), want[v]), "C14/nodes-are-what-was-added-in-submission-order")
	}
}

// C14 second epoch: vectors 0 and 1 are committed; the next epoch STARTS with a batch for vector 1 while
// nothing is pending for vector 0 (param 0 = 1: a batch for vector 0 follows). Whatever the contract accepts
// must be the roster after the commit, in submission order; the commit empties the pending roster, so a
// third epoch with one batch for vector 0 holds exactly that batch.
func VerifC14SecondEpoch() {
	deployContainerOnly()
	a, b, c, d, e := batch("a", 1), batch("b", 1), batch("c", 2), batch("d", 1), batch("e", 1)
	vAssume(alphaC("addNextEpochNodes", cid14, 0, a))
	vAssume(alphaC("addNextEpochNodes", cid14, 1, b))
	vAssume(alphaC("commitContainerListUpdate", cid14, []any{1, 1}))
	var want0, want1 []any
	if alphaC("addNextEpochNodes", cid14, 1, c) {
		vCover("vector-1-accepted-with-nothing-pending-for-vector-0")
		want1 = append(want1, c...)
	}
	if vParam(0) == 1 {
		vAssume(alphaC("addNextEpochNodes", cid14, 0, d))
		want0 = append(want0, d...)
		vAssume(alphaC("addNextEpochNodes", cid14, 1, e))
		want1 = append(want1, e...)
	}
	vAssume(alphaC("commitContainerListUpdate", cid14, []any{1, 1}))
	vCover("second-epoch-committed")
	vAssert(sameKeys(nodesOf(0), want0) && sameKeys(nodesOf(1), want1), "C14/nodes-are-what-was-added-in-submission-order")
	f := batch("f", 1)
	vAssume(alphaC("addNextEpochNodes", cid14, 0, f))
	vAssume(alphaC("commitContainerListUpdate", cid14, []any{1}))
	vAssert(sameKeys(nodesOf(0), f) && len(nodesOf(1)) == 0, "C14/commit-replaces-the-roster-and-empties-the-pending-one")
}

// C14 counter encoding: 2 bytes, round trip, order preserving, for every counter 1..32767.
func VerifC14Counter() {
	c1, c2 := vInt("c1"), vInt("c2")
	vAssume(c1 >= 1 && c1 <= 32767 && c2 >= 1 && c2 <= 32767)
	ok1, b1 := vKernel("counterToBytes", c1)
	ok2, b2 := vKernel("counterToBytes", c2)
	vAssert(ok1 && ok2, "C14/counter-encodes")
	x, y := b1.([]byte), b2.([]byte)
	vAssert(len(x) == 2 && len(y) == 2, "C14/counter-is-two-bytes")
	if c1 < c2 {
		vCover("ordered-pair")
		vAssert(x[0] < y[0] || (x[0] == y[0] && x[1] < y[1]), "C14/counter-encoding-preserves-order")
	}
	okb, back := vKernel("counterFromBytes", []byte{x[0], x[1]})
	vAssert(okb && back.(int) == c1, "C14/counter-round-trip")
}

// C14 signatures: vector 0 = {m0,m1}, vector 1 = {m2} (if param 0 == 2), REPs symbolic; the signature
// matrix consists of tokens with symbolic signer (member 0..2 or outsider = 3) made for msg or for another message.
func VerifC14Signatures() {
	vectors, nsig := vParam(0), vParam(1)
	deployContainerOnly()
	vSigMembers("m0", "m1", "m2")
	msg, other := []byte("object meta"), []byte("another msg")
	rep0, rep1 := vInt("rep0"), vInt("rep1")
	vAssume(rep0 >= 0 && rep0 <= 4 && rep1 >= 0 && rep1 <= 4)
	vAssume(alphaC("addNextEpochNodes", cid14, 0, []any{vKey("m0"), vKey("m1")}))
	if vParam(3) == 1 { // a second batch lists m0 again: the roster holds one key at two positions, which must
		// still count as ONE member
		vAssume(alphaC("addNextEpochNodes", cid14, 0, []any{vKey("m0")}))
	}
	reps := []any{rep0}
	if vectors == 2 {
		vAssume(alphaC("addNextEpochNodes", cid14, 1, []any{vKey("m2")}))
		reps = []any{rep0, rep1}
	}
	vAssume(alphaC("commitContainerListUpdate", cid14, reps))

	tags := []string{"s0", "s1", "s2", "t0", "t1"}
	var row0, row1 []any
	var who [5]int
	var good [5]bool
	for i := 0; i < nsig; i++ {
		who[i] = vInt("who_" + tags[i])
		vAssume(who[i] >= 0 && who[i] <= 3)
		good[i] = vBool("forThisMessage_" + tags[i])
		m := other
		if good[i] {
			m = msg
		}
		row0 = append(row0, vSigBy(tags[i], who[i], m))
	}
	for i := 3; i < 3+nsig && i < 5; i++ {
		who[i] = vInt("who_" + tags[i])
		vAssume(who[i] >= 0 && who[i] <= 3)
		good[i] = vBool("forThisMessage_" + tags[i])
		m := other
		if good[i] {
			m = msg
		}
		row1 = append(row1, vSigBy(tags[i], who[i], m))
	}
	given := vParam(2) // number of signature rows handed in
	sigs := []any{row0}
	if given == 2 {
		sigs = []any{row0, row1}
	}
	if given == 0 {
		sigs = []any{}
	}
	okq, res := vRead("container", "verifyPlacementSignatures", cid14, msg, sigs)
	accepted := okq && res.(bool)

	// distinct members of each vector with a valid signature of msg in the corresponding row
	d0 := 0
	for m := 0; m < 2; m++ {
		has := false
		for i := 0; i < nsig; i++ {
			if who[i] == m && good[i] {
				has = true
			}
		}
		if has {
			d0++
		}
	}
	d1 := 0
	for i := 3; i < 3+nsig && i < 5; i++ {
		if who[i] == 2 && good[i] {
			d1 = 1
		}
	}
	enough := given >= vectors && d0 >= rep0 && (vectors == 1 || d1 >= rep1)
	if given >= vectors {
		vRequire(accepted, "signatures-accepted")
	}
	vAssert(!accepted || enough, "C14/accepted-only-with-REP-distinct-members-per-vector")
	if enough && rep0 >= 1 && (vectors == 1 || rep1 >= 1) {
		vCover("enough-valid-signatures")
	}
}
