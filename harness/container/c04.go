package container

// reference model of the two pool containers
var (
	mLive, mDead, mEACL [2]bool
	mAlias              [2]bool
	mNameHolder         int // 0: the shared name is free, 1/2: held by that container
)

func has32(list [][]byte, x []byte) bool {
	found := false
	for _, it := range list {
		if vEq(it, x) {
			found = true
		}
	}
	return found
}

// C04: k (param 0) operations (kinds given by params 2.., 9 = symbolic kind) over two containers (blobs with version-field length param 1, owners
// o1 and o1-or-o2) and a foreign id; after every operation the whole read API is compared with the model.
func VerifC04Registry() {
	k, verLen := vParam(0), vParam(1)
	deployFS()
	vAssume(alphaOn("netmap", "setConfig", []byte("id"), []byte("ContainerFee"), 0))
	vAssume(alphaOn("netmap", "setConfig", []byte("id"), []byte("ContainerAliasFee"), 0))
	o1, o2 := vAcct("o1"), vAcct("o2")
	owner2 := o2
	sameOwner := vBool("sameOwner")
	if sameOwner {
		owner2 = o1
	}
	var blob, id, own [2][]byte
	ck1, ck2 := vBytes("ownerChecksum1", 4), vBytes("ownerChecksum2", 4)
	if sameOwner {
		ck2 = ck1
	}
	// the version-field parameter + 100 asks for blobs that END with the owner ID (31 bytes when the version
	// field is empty), the shortest blobs an owner can be taken from
	tail := 8
	if verLen >= 100 {
		verLen, tail = verLen-100, 0
	}
	blob[0], blob[1] = cnrBlobTail("c1", verLen, o1, ck1, tail), cnrBlobTail("c2", verLen, owner2, ck2, tail)
	vAssume(!vEq(blob[0], blob[1]))
	id[0], id[1] = vSha256(blob[0]), vSha256(blob[1])
	own[0], own[1] = ownerID(blob[0], verLen), ownerID(blob[1], verLen)
	foreign := vBytes("foreignID", 32)
	vAssume(!vEq(foreign, id[0]) && !vEq(foreign, id[1]))
	for i := 0; i < 2; i++ {
		mLive[i], mDead[i], mEACL[i], mAlias[i] = false, false, false, false
	}
	mNameHolder = 0
	baseItems, tombstones := vStorageCount("container"), 0
	tags := []string{"A", "B", "C", "D"}
	for s := 0; s < k; s++ {
		op, a := vParam(2+s), vBool("alphabetSigns"+tags[s]) // params 2..: the operation of each step (9 = symbolic)
		if op == 9 {
			op = vInt("op" + tags[s])
		}
		tgt := vInt("target" + tags[s]) // 0, 1: pool container, 2: the foreign id (delete / setEACL only)
		vAssume(op >= 0 && op <= 4 && tgt >= 0 && tgt <= 2)
		vAssume(tgt < 2 || op >= 3)
		i := tgt
		if i == 2 {
			i = 0
		}
		tid := foreign
		if tgt < 2 {
			tid = id[tgt]
		}
		vSign(vAlphabetAcct(), a)
		vSign(vAcct("stranger"), true)
		var done bool
		expect := false
		switch op {
		case 0:
			done, _ = vInvoke("container", "put", blob[i], vBytes("sig", 64), vKey("o1"), []byte{})
			expect = a && !mDead[i]
		case 1:
			done, _ = vInvoke("container", "put", blob[i], vBytes("sig", 64), vKey("o1"), []byte{}, true)
			expect = a && !mDead[i]
		case 2:
			done, _ = vInvoke("container", "putNamed", blob[i], vBytes("sig", 64), vKey("o1"), []byte{}, "shared", "")
			expect = a && !mDead[i] && mNameHolder == 0
		case 3:
			done, _ = vInvoke("container", "delete", tid, vBytes("sig", 64), []byte{})
			expect = tgt == 2 || !mLive[i] || a // deleting a missing container is a silent no-op
		case 4:
			eacl := append(append([]byte{1, 0, 2, 3, 4, 5}, tid...), vBytes("eaclTail", 3)...)
			done, _ = vInvoke("container", "setEACL", eacl, vBytes("sig", 64), vKey("o1"), []byte{})
			expect = a && tgt < 2 && mLive[i]
		}
		vAssert(done == expect, "C04/operation-succeeds-exactly-when-documented")
		nPut, nDel, nACL := len(vEvents("container", "PutSuccess")), len(vEvents("container", "DeleteSuccess")), len(vEvents("container", "SetEACLSuccess"))
		if done {
			vCover("operation-succeeded")
			switch {
			case op <= 2:
				mLive[i] = true
				if op == 2 {
					mAlias[i] = true
					mNameHolder = i + 1
				}
				vAssert(nPut == 1 && nDel == 0 && nACL == 0, "C04/exactly-one-notification-per-successful-operation")
			case op == 3 && tgt < 2 && mLive[i]:
				vCover("live-container-deleted")
				if !mLive[1-i] { // the registry is empty again: nothing but tombstones may be left behind
					vAssert(vStorageCount("container") == baseItems+tombstones+1, "C04/delete-removes-every-trace-but-the-tombstone")
				}
				tombstones++
				mLive[i], mDead[i], mEACL[i] = false, true, false
				if mAlias[i] {
					mAlias[i] = false
					mNameHolder = 0
				}
				vAssert(nPut == 0 && nDel == 1 && nACL == 0, "C04/exactly-one-notification-per-successful-operation")
			case op == 3:
				vAssert(nPut == 0 && nDel == 0 && nACL == 0 && !vEffects(), "C04/deleting-a-missing-container-changes-nothing")
			case op == 4:
				mEACL[i] = true
				vAssert(nPut == 0 && nDel == 0 && nACL == 1, "C04/exactly-one-notification-per-successful-operation")
			}
		} else {
			vAssert(nPut == 0 && nDel == 0 && nACL == 0, "C04/failed-operation-emits-nothing")
		}

		// the read API describes exactly the live containers
		live := 0
		for c := 0; c < 2; c++ {
			okG, g := vRead("container", "get", id[c])
			okO, o := vRead("container", "owner", id[c])
			okE, e := vRead("container", "eACL", id[c])
			okA, al := vRead("container", "alias", id[c])
			vAssert(okG == mLive[c] && okO == mLive[c] && okE == mLive[c] && okA == mLive[c], "C04/getters-answer-exactly-for-live-containers")
			if mLive[c] {
				live++
				vAssert(vEq(g.(Container).Value, blob[c]) && vEq(o.([]byte), own[c]), "C04/get-and-owner-return-the-stored-blob-and-its-owner")
				vAssert((len(e.(ExtendedACL).Value) > 0) == mEACL[c], "C04/eACL-returns-the-last-table-set")
				if mAlias[c] {
					vAssert(al != nil && vEq([]byte(al.(string)), []byte("shared.container")), "C04/alias-returns-the-name-set")
				} else {
					vAssert(al == nil || len(al.(string)) == 0, "C04/alias-returns-the-name-set")
				}
			}
		}
		okF, _ := vRead("container", "get", foreign)
		okFO, _ := vRead("container", "owner", foreign)
		vAssert(!okF && !okFO, "C04/unknown-ids-are-not-found")
		_, cnt := vRead("container", "count")
		vAssert(cnt.(int) == live, "C04/count-is-the-number-of-live-containers")
		_, all := vRead("container", "list", []byte{})
		_, l1 := vRead("container", "list", own[0])
		_, c2 := vRead("container", "containersOf", own[1])
		la, lo1, co2 := all.([][]byte), l1.([][]byte), c2.([][]byte)
		vAssert(len(la) == live && has32(la, id[0]) == mLive[0] && has32(la, id[1]) == mLive[1], "C04/list-enumerates-exactly-the-live-ids")
		n1 := 0
		if mLive[0] {
			n1++
		}
		if mLive[1] && sameOwner {
			n1++
		}
		vAssert(len(lo1) == n1 && has32(lo1, id[0]) == mLive[0] && has32(lo1, id[1]) == (mLive[1] && sameOwner), "C04/list-of-an-owner-enumerates-exactly-its-live-ids")
		n2 := 0
		if mLive[1] {
			n2++
		}
		if mLive[0] && sameOwner {
			n2++
		}
		vAssert(len(co2) == n2 && has32(co2, id[1]) == mLive[1], "C04/containersOf-enumerates-exactly-the-live-ids-of-the-owner")
		// the alias record in NNS follows the holder of the name
		okR, recs := vRead("nns", "getRecords", "shared.container", 16)
		if mNameHolder == 0 {
			vAssert(!okR || len(recs.([]string)) == 0, "C04/alias-record-removed-with-the-container")
		} else {
			vAssert(okR && len(recs.([]string)) == 1, "C04/alias-record-present-while-the-container-lives")
		}
	}
}

// C04, deletion of a named container whose alias domain has LAPSED: the committee registers mycnr.container
// with a symbolic lifetime 1..1000 s, the container is put under that name, a symbolic time span 1..1.1*10^6 ms
// passes (the domain may or may not have expired), the container is deleted. Whatever NNS answers about the
// lapsed domain, a successful delete is complete and final: every getter reports not found, count is 0, one
// DeleteSuccess, and the same blob can never be put again (plain or named).
func VerifC04ExpiredAlias() {
	vCommittee(1)
	deployFS()
	vAssume(alphaOn("netmap", "setConfig", []byte("id"), []byte("ContainerFee"), 0))
	vAssume(alphaOn("netmap", "setConfig", []byte("id"), []byte("ContainerAliasFee"), 0))
	owner := vAcct("owner")
	life, span := vInt("domainLifetime"), vInt("timeSpan")
	vAssume(life >= 1 && life <= 1000 && span >= 1 && span <= 1100000)
	vSign(vCommitteeAcct(), true)
	okd, rd := vInvoke("nns", "register", "mycnr.container", vCommitteeAcct(), "ops@nspcc.ru", 1, 2, life, 3)
	vAssume(okd && rd.(bool))
	blob := cnrBlob("c1", 0, owner)
	id := vSha256(blob)
	vSign(vAlphabetAcct(), true) // committee of 1: this is the committee account as well
	ok, _ := vInvoke("container", "putNamed", blob, vBytes("sig", 64), vKey("owner"), []byte{}, "mycnr", "container")
	vAssume(ok)
	_, al := vRead("container", "alias", id)
	vAssert(al != nil && al.(string) == "mycnr.container", "C04/alias-returns-the-name-set")
	// the alias record was written by the Container contract, whose domain string is a NeoVM Buffer (a
	// concatenation); the committee, owner of the domain, adds a second TXT record: both are listed, in order
	// (also registered under C12; the engine does not track Buffer-ness, the VM decides this during the replays)
	vSign(vAlphabetAcct(), true)
	okr, _ := vInvoke("nns", "addRecord", "mycnr.container", 16, "second")
	_, recs := vRead("nns", "getRecords", "mycnr.container", 16)
	vAssert(okr && len(recs.([]string)) == 2 && recs.([]string)[1] == "second", "C12/getRecords-returns-the-additions-in-order")
	vAdvanceTime(span)
	vSign(vAlphabetAcct(), true)
	done, _ := vInvoke("container", "delete", id, vBytes("sig", 64), []byte{})
	vRequire(done, "named-container-deleted")
	vCoverIf(done && span >= life*1000, "deleted-after-the-alias-domain-expired")
	if !done {
		return
	}
	vAssert(len(vEvents("container", "DeleteSuccess")) == 1, "C04/one-DeleteSuccess-per-successful-delete")
	okG, _ := vRead("container", "get", id)
	okO, _ := vRead("container", "owner", id)
	_, cnt := vRead("container", "count")
	_, al = vRead("container", "alias", id)
	vAssert(!okG && !okO && cnt.(int) == 0 && (al == nil || al.(string) == ""), "C04/getters-report-not-found-for-ids-that-are-not-live")
	vSign(vAlphabetAcct(), true)
	again, _ := vInvoke("container", "put", blob, vBytes("sig", 64), vKey("owner"), []byte{})
	vAssert(!again, "C04/a-deleted-id-can-never-be-registered-again")
	vSign(vAlphabetAcct(), true)
	again, _ = vInvoke("container", "putNamed", blob, vBytes("sig", 64), vKey("owner"), []byte{}, "other", "container")
	vAssert(!again, "C04/a-deleted-id-can-never-be-registered-again")
	okG, _ = vRead("container", "get", id)
	vAssert(!okG, "C04/a-deleted-id-can-never-be-registered-again")
}

// C04 with a Container deployed on a NAME SERVICE THAT IS NOT CONTRACT 1: the system NNS is deployed first
// (contract 1); Container is given the address of a second name service (the probe contract "mininns") for its
// container names. Everything Container does with names must go to the service it was configured with: the
// alias record appears there, delete removes it there, and the name can be used again afterwards.
func VerifC04ForeignNNS() {
	vCommittee(1)
	vDeploy("nns", []any{[]any{"neofs", "ops@nspcc.io"}})
	vDeploy("netmap", false, nil, nil, nil, []any{[]byte("ContainerFee"), 0, []byte("ContainerAliasFee"), 0})
	vDeploy("balance", false, nil, nil)
	vDeploy("neofsid", false)
	vDeploy("probe4")
	vDeploy("container", false, vContractHash("netmap"), vContractHash("balance"), vContractHash("neofsid"), vContractHash("probe4"), "container")
	owner := vAcct("owner")
	blob, blob2 := cnrBlob("c1", 0, owner), cnrBlob("c2", 0, owner)
	vAssume(!vEq(blob, blob2))
	id := vSha256(blob)
	vSign(vAlphabetAcct(), true)
	ok, _ := vInvoke("container", "putNamed", blob, vBytes("sig", 64), vKey("owner"), []byte{}, "mycnr", "container")
	vRequire(ok, "named-container-put-on-the-configured-name-service")
	vAssume(ok)
	_, r := vRead("probe4", "getRecords", "mycnr.container", 16)
	vAssert(len(r.([]string)) == 1, "C04/alias-record-is-kept-by-the-configured-name-service")
	_, al := vRead("container", "alias", id)
	vAssert(al != nil && al.(string) == "mycnr.container", "C04/alias-returns-the-name-set")
	vSign(vAlphabetAcct(), true)
	done, _ := vInvoke("container", "delete", id, vBytes("sig", 64), []byte{})
	vRequire(done, "named-container-deleted")
	vAssume(done)
	_, r = vRead("probe4", "getRecords", "mycnr.container", 16)
	vAssert(len(r.([]string)) == 0, "C04/delete-removes-the-alias-record")
	vSign(vAlphabetAcct(), true)
	again, _ := vInvoke("container", "putNamed", blob2, vBytes("sig", 64), vKey("owner"), []byte{}, "mycnr", "container")
	vAssert(again, "C04/a-name-can-be-reused-after-deletion")
}

// C04 with an id that is a PROPER PREFIX of a live container's id (param 0 bytes: 31, 20, 1, 0): it names no
// container. Every getter reports not found, delete does nothing (no DeleteSuccess, nothing removed, no
// tombstone that would block anything), setEACL is refused, and the live container is untouched.
func VerifC04PrefixID() {
	n := vParam(0)
	deployFS()
	vAssume(alphaOn("netmap", "setConfig", []byte("id"), []byte("ContainerFee"), 0))
	owner := vAcct("owner")
	blob := cnrBlob("c1", 0, owner)
	id := vSha256(blob)
	vSign(vAlphabetAcct(), true)
	ok, _ := vInvoke("container", "put", blob, vBytes("sig", 64), vKey("owner"), []byte{})
	vAssume(ok)
	short := id[:n]
	okG, _ := vRead("container", "get", short)
	okO, _ := vRead("container", "owner", short)
	okE, _ := vRead("container", "eACL", short)
	vAssert(!okG && !okO && !okE, "C04/getters-report-not-found-for-ids-that-are-not-live")
	before := vStorageCount("container")
	vSign(vAlphabetAcct(), true)
	vInvoke("container", "delete", short, vBytes("sig", 64), []byte{})
	vAssert(len(vEvents("container", "DeleteSuccess")) == 0 && vStorageCount("container") == before, "C04/delete-of-an-id-that-is-not-live-does-nothing")
	okG, _ = vRead("container", "get", id)
	_, cnt := vRead("container", "count")
	vAssert(okG && cnt.(int) == 1, "C04/delete-of-an-id-that-is-not-live-does-nothing")
	vCover("prefix-id-tried")
}
