package container

// C05: container creation charges exactly the configured fee (plus the alias fee for named containers) per
// Alphabet node, atomically. Params: committee size, version-field length of the blob, 1 = named container.
func VerifC05Fee() {
	n, verLen, named := vParam(0), vParam(1), vParam(2) == 1
	vCommittee(n)
	deployFS()
	owner := vAcct("owner")
	ownerIsNode := vParam(2) == 3 // the owner is the first Alphabet node itself: one fee leg is a self-transfer,
	// visible only in the payment notifications
	if ownerIsNode {
		owner = vMemberAcct(0)
	}
	fee, alias, bal := vInt("containerFee"), vInt("aliasFee"), vInt("ownerBalance")
	vAssume(fee >= 0 && fee <= 1000000 && alias >= 0 && alias <= 1000000 && bal >= 0 && bal <= 30000000)
	vAssume(alphaOn("netmap", "setConfig", []byte("id"), []byte("ContainerFee"), fee))
	vAssume(alphaOn("netmap", "setConfig", []byte("id"), []byte("ContainerAliasFee"), alias))
	vAssume(alphaOn("balance", "mint", owner, bal, []byte{}))

	if vParam(2) == 2 { // the alias domain already exists (registered by the committee, no records yet)
		vSign(vCommitteeAcct(), true)
		okd, rd := vInvoke("nns", "register", "mycnr.container", vCommitteeAcct(), "ops@nspcc.ru", 1, 2, 100000, 3)
		vAssume(okd && rd.(bool))
		named = true
	}
	blob := cnrBlob("c1", verLen, owner)
	id := vSha256(blob)
	alpha := vBool("putSignedByAlphabet")
	first, last := vMemberAcct(0), vMemberAcct(n-1)
	preOwner, preFirst, preLast := balanceOf(owner), balanceOf(first), balanceOf(last)
	vSign(vAlphabetAcct(), alpha)
	if vParam(2) == 2 { // records of a committee-owned domain need the committee's witness as well
		vSign(vCommitteeAcct(), true)
		if vEq(vCommitteeAcct(), vAlphabetAcct()) { // committees of 1 or 4: that IS the Alphabet account
			alpha = true
		}
	}
	var done bool
	if named {
		done, _ = vInvoke("container", "putNamed", blob, vBytes("sig", 64), vKey("owner"), []byte{}, "mycnr", "")
	} else {
		done, _ = vInvoke("container", "put", blob, vBytes("sig", 64), vKey("owner"), []byte{})
	}
	per := fee
	if named {
		per += alias
	}
	vAssert(done == (alpha && bal >= per*n), "C05/put-succeeds-iff-alphabet-signed-and-the-owner-can-pay-every-node")
	_, cnt := vRead("container", "count")
	okGet, _ := vRead("container", "get", id)
	vRequire(done, "container-created")
	if done {
		vCoverIf(bal == per*n && per > 0, "balance-exactly-at-the-threshold")
		if ownerIsNode { // the owner pays every node including itself: its balance drops by the other n-1 shares
			vAssert(balanceOf(owner) == preOwner-per*(n-1), "C05/owner-debited-exactly-fee-times-nodes")
			if n > 1 {
				vAssert(balanceOf(last) == preLast+per, "C05/each-alphabet-node-credited-exactly-the-fee")
			}
		} else {
			vAssert(balanceOf(owner) == preOwner-per*n, "C05/owner-debited-exactly-fee-times-nodes")
			if n > 1 {
				vAssert(balanceOf(first) == preFirst+per && balanceOf(last) == preLast+per, "C05/each-alphabet-node-credited-exactly-the-fee")
			} else {
				vAssert(balanceOf(first) == preFirst+per, "C05/each-alphabet-node-credited-exactly-the-fee")
			}
		}
		vAssert(cnt.(int) == 1 && okGet, "C05/container-stored-in-the-same-transaction")
		tx := vEvents("balance", "TransferX")
		vAssert(len(tx) == n, "C05/one-TransferX-per-alphabet-node")
		for _, ev := range tx {
			vAssert(vEq(ev[0].([]byte), owner) && ev[2].(int) == per, "C05/fee-transfers-carry-the-true-amount")
		}
		if ownerIsNode {
			return
		}
	} else {
		vCoverIf(alpha && bal == per*n-1, "balance-one-below-the-threshold")
		vAssert(balanceOf(owner) == preOwner && balanceOf(first) == preFirst && balanceOf(last) == preLast && cnt.(int) == 0 && !okGet, "C05/failed-put-changes-nothing")
		return
	}

	// the fee in force at that moment: change it, put a second (unnamed) container
	fee2 := vInt("containerFee2")
	vAssume(fee2 >= 0 && fee2 <= 1000000)
	vAssume(alphaOn("netmap", "setConfig", []byte("id"), []byte("ContainerFee"), fee2))
	blob2 := cnrBlob("c2", verLen, owner)
	vAssume(!vEq(blob2, blob))
	mid := balanceOf(owner)
	vSign(vAlphabetAcct(), true)
	done2, _ := vInvoke("container", "put", blob2, vBytes("sig2", 64), vKey("owner"), []byte{})
	vAssert(done2 == (mid >= fee2*n), "C05/second-put-uses-the-fee-configured-at-that-moment")
	if done2 {
		vCover("second-container-created")
		vAssert(balanceOf(owner) == mid-fee2*n, "C05/second-put-uses-the-fee-configured-at-that-moment")
	} else {
		vAssert(balanceOf(owner) == mid, "C05/failed-put-changes-nothing")
	}
}
