package container

func encE(e int) []byte {
	var buf any = e
	return buf.([]byte)
}

func hasPfx(s, p []byte) bool {
	if len(p) > len(s) {
		return false
	}
	return vEq(s[:len(p)], p)
}

func sizesOf(epoch int, cid []byte) []Estimation {
	_, r := vRead("container", "iterateContainerSizes", epoch, cid)
	return r.([]Estimation)
}

func epochClass(e, c int) bool {
	if c == 1 {
		return e >= 1 && e <= 127
	}
	return e >= 128 && e <= 32767
}

// C20 container size estimations: one container, one storage node that is in the previous epoch's network
// map; two estimations with symbolic epochs (length classes = params 0,1) and sizes, a stranger's and an
// unwitnessed attempt, queries for a symbolic epoch (class param 2), then an epoch tick and its clean-up.
func VerifC20Estimations() {
	deployFS()
	vAssume(alphaOn("netmap", "setConfig", []byte("id"), []byte("ContainerFee"), 0))
	owner, node := vAcct("owner"), vAcct("node")
	blob := cnrBlob("c", 0, owner)
	vSign(vAlphabetAcct(), true)
	ok, _ := vInvoke("container", "put", blob, vBytes("sig", 64), vKey("owner"), []byte{})
	vAssume(ok)
	cid := vSha256(blob)
	vAssume(alphaOn("netmap", "addPeerIR", vBlob("node", 1)))
	vAssume(alphaOn("netmap", "newEpoch", 1))
	vAssume(alphaOn("netmap", "addPeerIR", vBlob("late", 2))) // joins the map only at epoch 2
	vAssume(alphaOn("netmap", "newEpoch", 2))                  // "node" is in the map of the previous epoch now, "late" is not

	e1, e2, q := vInt("e1"), vInt("e2"), vInt("q")
	s1, s2 := vInt("size1"), vInt("size2")
	vAssume(epochClass(e1, vParam(0)) && epochClass(e2, vParam(1)) && epochClass(q, vParam(2)))
	vAssume(s1 >= 0 && s1 <= 1000000 && s2 >= 0 && s2 <= 1000000)

	// access: the node's own witness, membership of the previous epoch's map, an existing container
	vSign(vAcct("stranger"), true)
	ok, _ = vInvoke("container", "putContainerSize", e1, cid, s1, vKey("node"))
	vAssert(!ok, "C20/estimation-needs-the-node-witness")
	vSign(vAcct("outsider"), true)
	ok, _ = vInvoke("container", "putContainerSize", e1, cid, s1, vKey("outsider"))
	vAssert(!ok, "C20/estimation-only-from-nodes-of-the-previous-epoch-map")
	vSign(vAcct("late"), true)
	ok, _ = vInvoke("container", "putContainerSize", e1, cid, s1, vKey("late"))
	vAssert(!ok, "C20/estimation-only-from-nodes-of-the-previous-epoch-map")
	unknown := vBytes("unknownContainer", 32)
	vAssume(!vEq(unknown, cid))
	vSign(node, true)
	ok, _ = vInvoke("container", "putContainerSize", e1, unknown, s1, vKey("node"))
	vAssert(!ok, "C20/estimation-only-for-existing-containers")

	vSign(node, true)
	ok, _ = vInvoke("container", "putContainerSize", e1, cid, s1, vKey("node"))
	vAssume(ok)
	vSign(node, true)
	ok, _ = vInvoke("container", "putContainerSize", e2, cid, s2, vKey("node"))
	vAssume(ok)

	// what is stored: the second estimation always; the first one unless overwritten (same epoch) or cleaned
	// up by the second put (older than the clean-up delta of 3 epochs relative to e2)
	first := e1 != e2 && !(e2-e1 > 3)
	want := 0
	if q == e2 {
		want = 1
	}
	if first && q == e1 {
		want = 1
	}
	got := sizesOf(q, cid)
	kq := append(encE(q), cid...)
	k1, k2 := append(encE(e1), cid...), append(encE(e2), cid...)
	collide := (q != e1 && first && (hasPfx(k1, kq) || hasPfx(kq, k1))) || (q != e2 && (hasPfx(k2, kq) || hasPfx(kq, k2)))
	// a prefix collision between epoch encodings of different length would need a container id (a SHA-256
	// value) that continues the epoch bytes and repeats itself shifted by one byte: assumed away (the digest
	// stub is an arbitrary injective function, the real one does not produce such values)
	vAssume(!collide)
	vAssert(len(got) == want, "C20/estimations-returned-exactly-for-the-queried-epoch")
	if want == 1 {
		vCover("estimation-found")
		size := s2
		if q != e2 {
			size = s1
		}
		vAssert(vEq(got[0].From, vKey("node")) && got[0].Size == size, "C20/estimation-carries-the-node-key-and-the-last-size")
	}
	if vParam(0) <= vParam(1) && vParam(0) == vParam(2) {
		vCoverIf(e2-e1 > 3 && q == e1, "older-estimation-cleaned-up-by-the-next-one")
	}

	// epoch tick: Netmap delivers it to Container, which removes estimations more than 4 epochs old
	tickE := vInt("tickEpoch")
	vAssume(tickE >= 3 && tickE <= 32767)
	vAssume(alphaOn("netmap", "newEpoch", tickE))
	if first && !hasPfx(k2, k1) && !hasPfx(k1, k2) { // the first estimation is judged by its own epoch
		after1 := sizesOf(e1, cid)
		vAssert((len(after1) == 0) == (tickE-e1 > 4), "C20/tick-removes-exactly-the-estimations-older-than-the-delta")
		if vParam(0) <= vParam(1) {
			vCoverIf(tickE-e1 > 4 && !(tickE-e2 > 4), "tick-removes-the-older-of-two-estimations")
		}
	}
	after := sizesOf(e2, cid)
	if tickE-e2 > 4 {
		vCover("estimation-removed-by-the-tick")
		if !(first && hasPfx(k1, k2) && !(tickE-e1 > 4)) {
			vAssert(len(after) == 0, "C20/tick-removes-exactly-the-estimations-older-than-the-delta")
		}
	} else {
		vAssert(len(after) >= 1, "C20/tick-removes-exactly-the-estimations-older-than-the-delta")
	}
}

// C20 estimation ids: ONE estimation for a symbolic epoch (param 0: 0 = epoch 0, whose encoding is empty;
// 1 = 1..127; 2 = 128..32767), then the id path of the read API: listContainerSizes(epoch) reports exactly one
// id, getContainerSize(id) answers with the container and that one estimation, iterateAllContainerSizes and
// iterateContainerSizes agree. With a single entry stored no prefix collision (D7) can interfere.
func VerifC20EstimationIDs() {
	deployFS()
	vAssume(alphaOn("netmap", "setConfig", []byte("id"), []byte("ContainerFee"), 0))
	owner, node := vAcct("owner"), vAcct("node")
	blob := cnrBlob("c", 0, owner)
	vSign(vAlphabetAcct(), true)
	ok, _ := vInvoke("container", "put", blob, vBytes("sig", 64), vKey("owner"), []byte{})
	vAssume(ok)
	cid := vSha256(blob)
	vAssume(alphaOn("netmap", "addPeerIR", vBlob("node", 1)))
	vAssume(alphaOn("netmap", "newEpoch", 1))
	vAssume(alphaOn("netmap", "newEpoch", 2)) // "node" is in the map of the previous epoch

	e, size := vInt("epoch"), vInt("size")
	if vParam(0) == 0 {
		vAssume(e == 0)
	} else {
		vAssume(epochClass(e, vParam(0)))
	}
	vAssume(size >= 0 && size <= 1000000)
	vSign(node, true)
	ok, _ = vInvoke("container", "putContainerSize", e, cid, size, vKey("node"))
	vAssume(ok)

	okL, rl := vRead("container", "listContainerSizes", e)
	vAssert(okL && len(rl.([][]byte)) == 1, "C20/listContainerSizes-reports-one-id-per-container-with-estimations")
	if okL && len(rl.([][]byte)) == 1 {
		id := rl.([][]byte)[0]
		okG, rg := vRead("container", "getContainerSize", id)
		vAssert(okG, "C20/getContainerSize-answers-for-every-listed-id")
		vRequire(okG, "estimation-fetched-by-its-id")
		if okG {
			cs := rg.(ContainerSizes)
			vAssert(vEq(cs.CID, cid) && len(cs.Estimations) == 1 && cs.Estimations[0].Size == size && vEq(cs.Estimations[0].From, vKey("node")),
				"C20/getContainerSize-returns-the-container-and-its-estimations")
		}
	}
	got := sizesOf(e, cid)
	vAssert(len(got) == 1 && got[0].Size == size, "C20/iterateContainerSizes-returns-the-estimation")
	_, ra := vRead("container", "iterateAllContainerSizes", e)
	vAssert(len(ra.([]any)) == 1, "C20/iterateAllContainerSizes-returns-the-estimation")
}
