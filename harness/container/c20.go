package container

func encE(e int) []byte {
	var buf any = e
	return buf.([]byte)
}

func hasPfx(s, p []byte) bool {
	if len(p) > len(s) {
		return false
	}
	return vEq(s[:len(p)], p)
}

func sizesOf(epoch int, cid []byte) []Estimation {
	_, r := vRead("container", "iterateContainerSizes", epoch, cid)
	return r.([]Estimation)
}

func epochClass(e, c int) bool {
	if c == 1 {
		return e >= 1 && e <= 127
	}
	return e >= 128 && e <= 32767
}

// C20 container size estimations: one container, one storage node that is in the previous epoch's network
// map; two estimations with symbolic epochs (length classes = params 0,1) and sizes, a stranger's and an
// unwitnessed attempt, queries for a symbolic epoch (class param 2), then an epoch tick and its clean-up.
func VerifC20Estimations() {
	deployFS()
	vAssume(alphaOn("netmap", "setConfig", []byte("id"), []byte("ContainerFee"), 0))
	owner, node := vAcct("owner"), vAcct("node")
	blob := cnrBlob("c", 0, owner)
	vSign(vAlphabetAcct(), true)
	ok, _ := vInvoke("container", "put", blob, vBytes("sig", 64), vKey("owner"), []byte{})
	vAssume(ok)
	cid := vSha256(blob)
	vAssume(alphaOn("netmap", "addPeerIR", vBlob("node", 1)))
	vAssume(alphaOn("netmap", "newEpoch", 1))
	vAssume(alphaOn("netmap", "addPeerIR", vBlob("late", 2))) // joins the map only at epoch 2
	vAssume(alphaOn("netmap", "newEpoch", 2))                  // "node" is in the map of the previous epoch now, "late" is not

	e1, e2, q := vInt("e1"), vInt("e2"), vInt("q")
	s1, s2 := vInt("size1"), vInt("size2")
	vAssume(epochClass(e1, vParam(0)) && epochClass(e2, vParam(1)) && epochClass(q, vParam(2)))
	vAssume(s1 >= 0 && s1 <= 1000000 && s2 >= 0 && s2 <= 1000000)

	// access: the node's own witness, membership of the previous epoch's map, an existing container
	vSign(vAcct("stranger"), true)
	ok, _ = vInvoke("container", "putContainerSize", e1, cid, s1, vKey("node"))
	vAssert(!ok, "C20/estimation-needs-the-node-witness")
	vSign(vAcct("outsider"), true)
	ok, _ = vInvoke("container", "putContainerSize", e1, cid, s1, vKey("outsider"))
	vAssert(!ok, "C20/estimation-only-from-nodes-of-the-previous-epoch-map")
	vSign(vAcct("late"), true)
	ok, _ = vInvoke("container", "putContainerSize", e1, cid, s1, vKey("late"))
	vAssert(!ok, "C20/estimation-only-from-nodes-of-the-previous-epoch-map")
	unknown := vBytes("unknownContainer", 32)
	vAssume(!vEq(unknown, cid))
	vSign(node, true)
	ok, _ = vInvoke("container", "putContainerSize", e1, unknown, s1, vKey("node"))
	vAssert(!ok, "C20/estimation-only-for-existing-containers")

	vSign(node, true)
	ok, _ = vInvoke("container", "putContainerSize", e1, cid, s1, vKey("node"))
	vAssume(ok)
	vSign(node, true)
	ok, _ = vInvoke("container", "putContainerSize", e2, cid, s2, vKey("node"))
	vAssume(ok)

	// what is stored: the second estimation always; the first one unless overwritten (same epoch) or cleaned
	// up by the second put (older than the clean-up delta of 3 epochs relative to e2)
	first := e1 != e2 && !(e2-e1 > 3)
	want := 0
	if q == e2 {
		want = 1
	}
	if first && q == e1 {
		want = 1
	}
	got := sizesOf(q, cid)
	kq := append(encE(q), cid...)
	k1, k2 := append(encE(e1), cid...), append(encE(e2), cid...)
	collide := (q != e1 && first && (hasPfx(k1, kq) || hasPfx(kq, k1))) || (q != e2 && (hasPfx(k2, kq) || hasPfx(kq, k2)))
	// a prefix collision between epoch encodings of different length would need a container id (a SHA-256
	// value) that continues the epoch bytes and repeats itself shifted by one byte: assumed away (the digest
	// stub is an arbitrary injective function, the real one does not produce such values)
	vAssume(!collide)
	vAssert(len(got) == want, "C20/estimations-returned-exactly-for-the-queried-epoch")
	if want == 1 {
		vCover("estimation-found")
		size := s2
		if q != e2 {
			size = s1
		}
		vAssert(vEq(got[0].From, vKey("node")) && got[0].Size == size, "C20/estimation-carries-the-node-key-and-the-last-size")
	}
	if vParam(0) <= vParam(1) && vParam(0) == vParam(2) {
		vCoverIf(e2-e1 > 3 && q == e1, "older-estimation-cleaned-up-by-the-next-one")
	}

	// epoch tick: Netmap delivers it to Container, which removes estimations more than 4 epochs old
	tickE := vInt("tickEpoch")
	vAssume(tickE >= 3 && tickE <= 32767)
	vAssume(alphaOn("netmap", "newEpoch", tickE))
	if first && !hasPfx(k2, k1) && !hasPfx(k1, k2) { // the first estimation is judged by its own epoch
		after1 := sizesOf(e1, cid)
		vAssert((len(after1) == 0) == (tickE-e1 > 4), "C20/tick-removes-exactly-the-estimations-older-than-the-delta")
		if vParam(0) <= vParam(1) {
			vCoverIf(tickE-e1 > 4 && !(tickE-e2 > 4), "tick-removes-the-older-of-two-estimations")
		}
	}
	after := sizesOf(e2, cid)
	if tickE-e2 > 4 {
		vCover("estimation-removed-by-the-tick")
		if !(first && hasPfx(k1, k2) && !(tickE-e1 > 4)) {
			vAssert(len(after) == 0, "C20/tick-removes-exactly-the-estimations-older-than-the-delta")
		}
	} else {
		vAssert(len(after) >= 1, "C20/tick-removes-exactly-the-estimations-older-than-the-delta")
	}
}

// C20 estimation ids: ONE estimation for a symbolic epoch (param 0: 0 = epoch 0, whose encoding is empty;
// 1 = 1..127; 2 = 128..32767), then the id path of the read API: listContainerSizes(epoch) reports exactly one
// id, getContainerSize(id) answers with the container and that one estimation, iterateAllContainerSizes and
// iterateContainerSizes agree. With a single entry stored no prefix collision (D7) can interfere.
func VerifC20EstimationIDs() {
	deployFS()
	vAssume(alphaOn("netmap", "setConfig", []byte("id"), []byte("ContainerFee"), 0))
	owner, node := vAcct("owner"), vAcct("node")
	blob := cnrBlob("c", 0, owner)
	vSign(vAlphabetAcct(), true)
	ok, _ := vInvoke("container", "put", blob, vBytes("sig", 64), vKey("owner"), []byte{})
	vAssume(ok)
	cid := vSha256(blob)
	vAssume(alphaOn("netmap", "addPeerIR", vBlob("node", 1)))
	vAssume(alphaOn("netmap", "newEpoch", 1))
	vAssume(alphaOn("netmap", "newEpoch", 2)) // "node" is in the map of the previous epoch

	e, size := vInt("epoch"), vInt("size")
	if vParam(0) == 0 {
		vAssume(e == 0)
	} else {
		vAssume(epochClass(e, vParam(0)))
	}
	vAssume(size >= 0 && size <= 1000000)
	vSign(node, true)
	ok, _ = vInvoke("container", "putContainerSize", e, cid, size, vKey("node"))
	vAssume(ok)

	okL, rl := vRead("container", "listContainerSizes", e)
	vAssert(okL && len(rl.([][]byte)) == 1, "C20/listContainerSizes-reports-one-id-per-container-with-estimations")
	if okL && len(rl.([][]byte)) == 1 {
		id := rl.([][]byte)[0]
		okG, rg := vRead("container", "getContainerSize", id)
		vAssert(okG, "C20/getContainerSize-answers-for-every-listed-id")
		vRequire(okG, "estimation-fetched-by-its-id")
		if okG {
			cs := rg.(ContainerSizes)
			vAssert(vEq(cs.CID, cid) && len(cs.Estimations) == 1 && cs.Estimations[0].Size == size && vEq(cs.Estimations[0].From, vKey("node")),
				"C20/getContainerSize-returns-the-container-and-its-estimations")
		}
	}
	got := sizesOf(e, cid)
	vAssert(len(got) == 1 && got[0].Size == size, "C20/iterateContainerSizes-returns-the-estimation")
	_, ra := vRead("container", "iterateAllContainerSizes", e)
	vAssert(len(ra.([]any)) == 1, "C20/iterateAllContainerSizes-returns-the-estimation")
}

// C20 estimation series: ONE node announces param 0 (3 or 4) times for one container with symbolic epochs 1..127 (any
// order, repetitions allowed) and symbolic sizes. Reference model: an announcement for epoch e removes the
// node's stored estimations of epochs more than 3 below e and stores (or overwrites) the one of e. After every
// announcement the estimations of all announced epochs are read back. An announcement by a node of the previous
// map for an existing container must be accepted whatever was announced before (beyond the statement, DESIGN.md 2.9).
func VerifC20EstimationSeries() {
	deployFS()
	vAssume(alphaOn("netmap", "setConfig", []byte("id"), []byte("ContainerFee"), 0))
	owner, node := vAcct("owner"), vAcct("node")
	blob := cnrBlob("c", 0, owner)
	vSign(vAlphabetAcct(), true)
	ok, _ := vInvoke("container", "put", blob, vBytes("sig", 64), vKey("owner"), []byte{})
	vAssume(ok)
	cid := vSha256(blob)
	vAssume(alphaOn("netmap", "addPeerIR", vBlob("node", 1)))
	vAssume(alphaOn("netmap", "newEpoch", 1))
	vAssume(alphaOn("netmap", "newEpoch", 2))
	n := vParam(0)
	var ep, sz [4]int
	ep[0], ep[1], ep[2], ep[3] = vInt("e1"), vInt("e2"), vInt("e3"), vInt("e4")
	sz[0], sz[1], sz[2], sz[3] = vInt("size1"), vInt("size2"), vInt("size3"), vInt("size4")
	for i := 0; i < n; i++ {
		vAssume(ep[i] >= 1 && ep[i] <= 127 && sz[i] >= 0 && sz[i] <= 1000000)
	}
	var live [4]bool // live[i]: the estimation announced by step i is stored (and not overwritten by a later step)
	for i := 0; i < n; i++ {
		vSign(node, true)
		ok, _ = vInvoke("container", "putContainerSize", ep[i], cid, sz[i], vKey("node"))
		vRequire(ok, "estimation-accepted")
		vAssert(ok, "C20/operation-succeeds-exactly-when-documented")
		vAssume(ok)
		for j := 0; j < i; j++ {
			if live[j] && (ep[i]-ep[j] > 3 || ep[i] == ep[j]) {
				live[j] = false
			}
		}
		live[i] = true
		for j := 0; j <= i; j++ {
			got := sizesOf(ep[j], cid)
			// the estimation of epoch ep[j] is stored iff some live step announced that epoch; its size is that step's
			want, size := false, 0
			for k := 0; k <= i; k++ {
				if live[k] && ep[k] == ep[j] {
					want, size = true, sz[k]
				}
			}
			if want {
				vAssert(len(got) == 1 && got[0].Size == size && vEq(got[0].From, vKey("node")), "C20/estimations-returned-exactly-for-the-queried-epoch")
			} else {
				vAssert(len(got) == 0, "C20/announcement-removes-exactly-the-node's-estimations-older-than-the-delta")
			}
		}
	}
	vCoverIf(ep[0] == ep[1] && ep[2]-ep[0] > 3, "repeated-announcement-then-one-beyond-the-delta")
	if n == 4 {
		vCoverIf(ep[0] < ep[1] && ep[1] == ep[2] && ep[3]-ep[1] > 3, "second-epoch-repeated-then-one-beyond-the-delta")
	}
	vCoverIf(ep[0] < ep[1] && ep[1] < ep[2] && ep[2]-ep[0] > 3 && ep[2]-ep[1] <= 3, "older-of-two-removed-by-the-third")
	// the tick's clean-up judges every stored estimation by its own epoch
	tickE := vInt("tickEpoch")
	vAssume(tickE >= 3 && tickE <= 140)
	vAssume(alphaOn("netmap", "newEpoch", tickE))
	for j := 0; j < n; j++ {
		if live[j] {
			after := sizesOf(ep[j], cid)
			vAssert((len(after) == 0) == (tickE-ep[j] > 4), "C20/tick-removes-exactly-the-estimations-older-than-the-delta")
		}
	}
}

// C20 estimations after the snapshot history was RESIZED: node "gone" is in the map of epoch 1 only, "node"
// in every map, "late" from epoch 2 on. At epoch 2 the Alphabet sets the snapshot count to a symbolic 2..4
// (2 is the current ring index), then ticks to epoch 3. The "previous epoch's network map" an estimation is
// checked against is the map of epoch 2 whatever the count: node and late are accepted, gone and an outsider
// are refused.
func VerifC20EstimationsAfterResize() {
	deployFS()
	vAssume(alphaOn("netmap", "setConfig", []byte("id"), []byte("ContainerFee"), 0))
	owner := vAcct("owner")
	blob := cnrBlob("c", 0, owner)
	vSign(vAlphabetAcct(), true)
	ok, _ := vInvoke("container", "put", blob, vBytes("sig", 64), vKey("owner"), []byte{})
	vAssume(ok)
	cid := vSha256(blob)
	vAssume(alphaOn("netmap", "addPeerIR", vBlob("node", 1)))
	vAssume(alphaOn("netmap", "addPeerIR", vBlob("gone", 3)))
	vAssume(alphaOn("netmap", "newEpoch", 1))
	vAssume(alphaOn("netmap", "updateStateIR", 2, vKey("gone"))) // offline: leaves before epoch 2
	vAssume(alphaOn("netmap", "addPeerIR", vBlob("late", 2)))
	vAssume(alphaOn("netmap", "newEpoch", 2))
	count := vInt("snapshotCount")
	// with a single snapshot kept there is no "previous epoch's map" to ask for (netmap.snapshot(1) answers
	// "incorrect diff") and nobody can announce anything: counts from 2 on
	vAssume(count >= 2 && count <= 4)
	resized := alphaOn("netmap", "updateSnapshotCount", count)
	vRequire(resized, "snapshot-count-changed")
	vAssume(alphaOn("netmap", "newEpoch", 3))
	size := vInt("size")
	vAssume(size >= 0 && size <= 1000000)
	vAssert(!tryPutSize("gone", cid, size), "C20/estimation-only-from-nodes-of-the-previous-epoch-map")
	vAssert(!tryPutSize("outsider", cid, size), "C20/estimation-only-from-nodes-of-the-previous-epoch-map")
	okNode, okLate := tryPutSize("node", cid, size), tryPutSize("late", cid, size)
	vAssert(okNode && okLate, "C20/operation-succeeds-exactly-when-documented")
	vCoverIf(resized && count == 2, "count-set-to-the-ring-index")
	got := sizesOf(3, cid)
	vAssert(len(got) == 2 || !(okNode && okLate), "C20/estimations-returned-exactly-for-the-queried-epoch")
}

func tryPutSize(tag string, cid []byte, size int) bool {
	vSign(vAcct(tag), true)
	okp, _ := vInvoke("container", "putContainerSize", 3, cid, size, vKey(tag))
	return okp
}
