package container

import "github.com/nspcc-dev/neofs-contract/common"

// C16 migration of a legacy Container storage: containers live under their bare 32-byte id and the owner
// index under the bare 57-byte owner||id; releases before 0.17.0 may also carry a 'notary' flag and ballots.
// The storage is preset raw and the working tree's _deploy(data||v, true) runs on it; afterwards
// get / owner / eACL / count / list / containersOf answer from the preset items and a migrated container can
// be deleted like any other.
// param 0: era (0: v in [0.15.4, 0.17.0), 1: [0.17.0, current)); param 1: notary flag (0 absent, 1 false,
// 2 true without ballots, 3 true with a stale ballot, 4 true with a pending ballot); param 2: 1 = both
// containers belong to one owner; param 3: byte length of the epoch of a preset size estimation (0: none).
// Estimation keys are "cnr"||epoch bytes||cid||10 bytes: their length varies with the epoch, which
// putContainerSize takes from its caller unchecked, and the migration selects items by key length alone.
func VerifC16MigrateContainer() {
	era, notary, sameOwner := vParam(0), vParam(1), vParam(2) == 1
	v := vInt("deployedVersion")
	cur := vRepoVersion()
	if era == 0 {
		vAssume(v >= 15004 && v < 17000)
	} else {
		vAssume(v >= 17000)
	}
	vAssume(v < cur)
	vPresetDeploy("container")

	o1, o2 := vAcct("owner1"), vAcct("owner2")
	ck1 := vBytes("cksum1", 4)
	blobA := cnrBlobOf("A", 0, o1, ck1)
	blobB := cnrBlobOf("B", 0, o2, vBytes("cksum2", 4))
	if sameOwner {
		blobB = cnrBlobOf("B", 0, o1, ck1)
	}
	vAssume(!vEq(blobA, blobB)) // two containers: identical blobs would be one container preset twice
	ownA, ownB := ownerID(blobA, 0), ownerID(blobB, 0)
	idA, idB := vSha256(blobA), vSha256(blobB)
	sig, pub, tok := vBytes("sig", 64), vKey("owner1"), vBytes("tok", 2)
	eacl := append(append([]byte{1, 0, 2, 3, 4, 5}, idA...), 7, 7)

	vPreset("container", idA, vSerialize(Container{Value: blobA, Sig: sig, Pub: pub, Token: tok}))
	vPreset("container", idB, vSerialize(Container{Value: blobB, Sig: sig, Pub: pub, Token: []byte{}}))
	vPreset("container", append(append([]byte{}, ownA...), idA...), idA)
	vPreset("container", append(append([]byte{}, ownB...), idB...), idB)
	vPreset("container", append(append([]byte{}, eACLPrefix...), idA...), vSerialize(ExtendedACL{Value: eacl, Sig: sig, Pub: pub, Token: []byte{}}))
	vPreset("container", []byte(netmapContractKey), vAcct("netmap-placeholder"))
	vPreset("container", []byte(balanceContractKey), vAcct("balance-placeholder"))
	vPreset("container", []byte(neofsIDContractKey), vAcct("neofsid-placeholder"))
	vPreset("container", []byte(nnsContractKey), vAcct("nns-placeholder"))
	vPreset("container", []byte(nnsRootKey), "container")
	estLen := vParam(3)
	estEpoch, estSize, nodeKey := vInt("estimationEpoch"), vInt("estimationSize"), vKey("node")
	if estLen != 0 {
		vAssume(epochOfLen(estEpoch, estLen) && estSize >= 0 && estSize <= 1000000)
		vPreset("container", estimationKey(estEpoch, idA, nodeKey), vSerialize(Estimation{From: nodeKey, Size: estSize}))
	}
	pending := false
	if era == 0 {
		switch notary {
		case 1:
			vPreset("container", []byte("notary"), false)
		case 2:
			vPreset("container", []byte("notary"), true)
			vPreset("container", []byte("ballots"), vSerialize([]common.Ballot{}))
		case 3:
			vPreset("container", []byte("notary"), true)
			vPreset("container", []byte("ballots"), vSerialize([]common.Ballot{{ID: []byte("id"), Voters: nil, Height: -100000}}))
		case 4:
			vPreset("container", []byte("notary"), true)
			vPreset("container", []byte("ballots"), vSerialize([]common.Ballot{{ID: []byte("id"), Voters: nil, Height: 1 << 30}}))
			pending = true
		}
	}

	done, _ := vUpdateFromPreset("container", v)
	vAssert(done == !pending, "C16/legacy-container-upgrade-completes-unless-a-vote-is-pending")
	if pending {
		vCoverIf(!done, "pending-ballot-refuses-the-upgrade")
		return
	}
	vRequire(done, "legacy-container-upgraded")
	if !done {
		return
	}
	_, ver := vRead("container", "version")
	vAssert(ver.(int) == cur, "C16/contract-reports-the-repository-version")

	okA, ra := vRead("container", "get", idA)
	okB, rb := vRead("container", "get", idB)
	vAssert(okA && okB, "C16/migration-preserves-containers")
	if okA && okB {
		ca, cb := ra.(Container), rb.(Container)
		vAssert(vEq(ca.Value, blobA) && vEq(ca.Sig, sig) && vEq(ca.Pub, pub) && vEq(ca.Token, tok) && vEq(cb.Value, blobB), "C16/migration-preserves-containers")
	}
	okO, ro := vRead("container", "owner", idA)
	vAssert(okO && vEq(ro.([]byte), ownA), "C16/migration-preserves-container-owners")
	okE, re := vRead("container", "eACL", idA)
	vAssert(okE && vEq(re.(ExtendedACL).Value, eacl), "C16/migration-preserves-eacl")
	_, cnt := vRead("container", "count")
	_, all := vRead("container", "list", []byte{})
	vAssert(cnt.(int) == 2 && len(all.([][]byte)) == 2, "C16/migration-preserves-the-container-count")
	_, la := vRead("container", "list", ownA)
	_, ia := vRead("container", "containersOf", ownA)
	wantA := 1
	if sameOwner {
		wantA = 2
	}
	hasA := false
	for _, id := range la.([][]byte) {
		if vEq(id, idA) {
			hasA = true
		}
	}
	vAssert(len(la.([][]byte)) == wantA && hasA && len(ia.([]any)) == wantA, "C16/migration-preserves-the-owner-index")
	_, everybody := vRead("container", "containersOf", []byte{})
	vAssert(len(everybody.([]any)) == 2, "C16/migration-preserves-the-owner-index")
	if estLen != 0 {
		_, re := vRead("container", "iterateContainerSizes", estEpoch, idA)
		ests := re.([]Estimation)
		vAssert(len(ests) == 1 && ests[0].Size == estSize && vEq(ests[0].From, nodeKey), "C16/migration-preserves-size-estimations")
	}
	okU, _ := vRead("container", "get", vSha256([]byte("unknown")))
	vAssert(!okU, "C16/migration-invents-no-container")

	// a migrated container is deleted like any other one
	vAssert(alphaOn("container", "delete", idA, sig, []byte{}), "C16/migrated-containers-are-usable")
	okA, _ = vRead("container", "get", idA)
	_, cnt = vRead("container", "count")
	_, la = vRead("container", "list", ownA)
	vAssert(!okA && cnt.(int) == 1 && len(la.([][]byte)) == wantA-1, "C16/migrated-containers-are-usable")
}

// epochOfLen: the epoch's NeoVM integer encoding takes n bytes (n = 1, 2 or 12).
func epochOfLen(e, n int) bool {
	switch n {
	case 1:
		return e >= 1 && e <= 127
	case 2:
		return e >= 128 && e <= 32767
	}
	b := 1 << 44 // 2^87 <= e < 2^95; computed at run time: the bounds do not fit a Go constant
	lo := b * b / 2
	return e >= lo && e < lo*256
}
