package deploy

import (
	"math"

	"github.com/nspcc-dev/neo-go/pkg/core/transaction"
	"github.com/nspcc-dev/neo-go/pkg/neorpc/result"
	"github.com/nspcc-dev/neo-go/pkg/util"
)

// C13 (native-Go mode): divideFundsEvenly for a concrete number of receivers (param 0) and every 64-bit amount.
func VerifC13DivideFunds() {
	full := vU64("full")
	n := vParam(0)
	var sum, mx uint64
	mn := ^uint64(0)
	calls, lastInd := 0, -1
	ordered, zeroShare := true, false
	divideFundsEvenly(full, n, func(ind int, amount uint64) {
		sum += amount
		if amount > mx {
			mx = amount
		}
		if amount < mn {
			mn = amount
		}
		if amount == 0 {
			zeroShare = true
		}
		if ind != lastInd+1 {
			ordered = false
		}
		lastInd = ind
		calls++
	})
	vAssert(sum == full, "C13/shares-sum-to-the-input")
	vAssert(ordered, "C13/receivers-served-in-ascending-order-from-zero")
	vAssert(!zeroShare, "C13/nobody-is-called-with-a-zero-share")
	if calls == n {
		vCover("everybody-served")
		vAssert(mx-mn <= 1, "C13/shares-differ-by-at-most-one")
	} else {
		vCover("fewer-units-than-receivers")
		// the receivers that were not called got 0, so the served ones may only have got 1
		vAssert(calls == 0 || (mx == 1 && mn == 1), "C13/shares-differ-by-at-most-one")
		vAssert(uint64(calls) == full, "C13/partial-distribution-gives-one-unit-each")
	}
}

// C13 (native-Go mode): the deterministic nonce / ValidUntilBlock window for every height.
func VerifC13TxWindow() {
	h, h2 := vU32("height"), vU32("height2")
	halt := vBool("halt")
	state := "FAULT"
	if halt {
		state = "HALT"
	}
	r := &result.Invoke{State: state}
	tx := &transaction.Transaction{Nonce: 7, ValidUntilBlock: 9}
	err := neoFSRuntimeTransactionModifier(func() uint32 { return h })(r, tx)
	if !halt {
		vCover("failed-invocation")
		vAssert(err != nil && tx.Nonce == 7 && tx.ValidUntilBlock == 9, "C13/failed-invocation-is-an-error-and-leaves-the-transaction-alone")
		return
	}
	vCover("halted-invocation")
	vAssert(err == nil, "C13/halted-invocation-is-accepted")
	vAssert(tx.Nonce%100 == 0 && tx.Nonce <= h && h-tx.Nonce < 100, "C13/nonce-is-the-start-of-the-100-block-window")
	if tx.Nonce < math.MaxUint32-100 {
		vAssert(tx.ValidUntilBlock == tx.Nonce+100 && tx.ValidUntilBlock > h, "C13/valid-until-the-end-of-the-window")
	} else {
		vCover("last-window")
		vAssert(tx.ValidUntilBlock == math.MaxUint32 && tx.ValidUntilBlock >= h, "C13/last-window-saturates-without-wrap-around")
	}
	// members seeing heights of one window build identical transactions
	tx2 := &transaction.Transaction{}
	r2 := &result.Invoke{State: "HALT"}
	err2 := neoFSRuntimeTransactionModifier(func() uint32 { return h2 })(r2, tx2)
	if h/100 == h2/100 {
		vCover("same-window")
		vAssert(err2 == nil && tx2.Nonce == tx.Nonce && tx2.ValidUntilBlock == tx.ValidUntilBlock, "C13/same-window-same-nonce-and-validity")
	}
	// ONE modifier is built per deployment stage and applied at every new block: each application reads the
	// height of that moment
	cur := h
	reused := neoFSRuntimeTransactionModifier(func() uint32 { return cur })
	tx3 := &transaction.Transaction{}
	err3 := reused(&result.Invoke{State: "HALT"}, tx3)
	cur = h2
	tx4 := &transaction.Transaction{}
	err4 := reused(&result.Invoke{State: "HALT"}, tx4)
	vAssert(err3 == nil && err4 == nil && tx3.Nonce == tx.Nonce && tx3.ValidUntilBlock == tx.ValidUntilBlock, "C13/a-reused-modifier-follows-the-chain-height")
	vAssert(tx4.Nonce == tx2.Nonce && tx4.ValidUntilBlock == tx2.ValidUntilBlock, "C13/a-reused-modifier-follows-the-chain-height")
	vCoverIf(h/100 != h2/100, "reused-in-another-window")
}

// C13 (native-Go mode): the sharedTransactionData codec for EVERY value (20 symbolic sender bytes, every
// 32-bit validUntilBlock and nonce): fixed 28-byte big-endian layout, base64 round trip, checksum prefix round
// trip for a symbolic payload of param 0 bytes, refusal of inputs shorter than the checksum.
func VerifC13Codec() {
	senderBytes := vBytes("sender", 20)
	sender, err := util.Uint160DecodeBytesBE(senderBytes)
	vAssume(err == nil)
	vub, nonce := vU32("validUntilBlock"), vU32("nonce")
	x := sharedTransactionData{sender: sender, validUntilBlock: vub, nonce: nonce}

	b := x.bytes()
	vAssert(len(b) == sharedTransactionDataLen, "C13/shared-data-has-its-fixed-length")
	if len(b) == sharedTransactionDataLen {
		v := uint32(b[20])*16777216 + uint32(b[21])*65536 + uint32(b[22])*256 + uint32(b[23])
		n := uint32(b[24])*16777216 + uint32(b[25])*65536 + uint32(b[26])*256 + uint32(b[27])
		vAssert(vEq(b[:20], senderBytes) && v == vub && n == nonce, "C13/shared-data-layout-is-sender-then-two-big-endian-words")
	}

	var y sharedTransactionData
	derr := y.decodeString(x.encodeToString())
	vAssert(derr == nil, "C13/shared-data-round-trip")
	if derr == nil {
		vAssert(vEq(y.sender.BytesBE(), senderBytes) && y.validUntilBlock == vub && y.nonce == nonce, "C13/shared-data-round-trip")
		vCover("shared-data-decoded")
	}

	payload := vBytes("payload", vParam(0))
	ok, rest := x.shiftChecksum(x.unshiftChecksum(payload))
	vAssert(ok && vEq(rest, payload), "C13/checksum-prefix-round-trip")
	short := vBytes("short", 3)
	okShort, _ := x.shiftChecksum(short)
	vAssert(!okShort, "C13/input-shorter-than-the-checksum-is-refused")
	// an input of exactly the checksum's length is a checksum with an empty payload
	okEmpty, restEmpty := x.shiftChecksum(x.unshiftChecksum(nil))
	vAssert(okEmpty && len(restEmpty) == 0, "C13/empty-payload-round-trip")
}
